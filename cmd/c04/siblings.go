package main

// Sibling objects with long member names in types where the library tracks the names of an
// object as it writes/reads it (embedded fallback maps): one object whose names exceed the
// size at which the per-object name set changes its representation, followed by siblings at the
// same depth that use some of the same names again.  Every such value is a legal member of the
// round-trip domain; what one object leaves behind must not show in the next.

import (
	"fmt"

	"github.com/go-json-experiment/json/jsontext"
	"reflect"
	"strings"

	"verif/run"
)

type sibBox struct {
	ID   int            `json:"id"`
	Rest map[string]int `json:",embed"`
}

type sibPair struct {
	A sibBox            `json:"a"`
	B sibBox            `json:"b"`
	L []sibBox          `json:"l"`
	M map[string]sibBox `json:"m"`
}

// sibBoxV keeps unknown members as raw text (the other kind of embedded fallback).
type sibBoxV struct {
	ID   int            `json:"id"`
	Rest jsontext.Value `json:",embed"`
}

type sibArgs struct {
	Members int `json:"members"`
	NameLen int `json:"name_len"`
	Reuse   int `json:"reuse"` // index of the name the later siblings use again
	Opt     int `json:"opt"`
}

func checkSiblings(w *run.W, a *sibArgs) {
	os := optSets[a.Opt%len(optSets)]
	names := make([]string, a.Members)
	big := map[string]int{}
	for i := range names {
		names[i] = strings.Repeat("n", max(0, a.NameLen-5)) + fmt.Sprintf("%05d", i)
		big[names[i]] = i
	}
	re := names[a.Reuse%len(names)]
	small := func(v int) map[string]int { return map[string]int{re: v, "id2": v} }
	vals := []any{
		[]sibBox{{1, big}, {2, small(7)}, {3, small(8)}},
		sibPair{A: sibBox{1, big}, B: sibBox{2, small(1)}},
		sibPair{L: []sibBox{{1, small(0)}, {2, big}, {3, small(2)}, {4, big}}},
		sibPair{M: map[string]sibBox{"x": {1, big}, "y": {2, small(3)}, "z": {3, small(4)}}},
		[][]sibBox{{{1, big}}, {{2, small(5)}}},
	}
	// the same members kept as raw text: compact spelling, names in the order given, so that the bytes come back
	raw := func(ns []string, v int) jsontext.Value {
		var sb strings.Builder
		sb.WriteByte('{')
		for i, n := range ns {
			if i > 0 {
				sb.WriteByte(',')
			}
			fmt.Fprintf(&sb, `"%s":%d`, n, v+i)
		}
		sb.WriteByte('}')
		return jsontext.Value(sb.String())
	}
	vals = append(vals,
		[]sibBoxV{{1, raw(names, 0)}, {2, raw([]string{re, "id2"}, 7)}, {3, raw([]string{"alpha", "beta", "gamma", "delta"}, 1)}},
		map[string]sibBoxV{"x": {1, raw([]string{"alpha", "beta"}, 3)}, "y": {2, raw(names[:min(len(names), 3)], 5)}},
		struct {
			A sibBoxV   `json:"a"`
			L []sibBoxV `json:"l"`
		}{sibBoxV{1, raw([]string{"alpha", "some-longer-member-name", "beta"}, 1)}, []sibBoxV{{2, raw(names, 9)}, {3, raw([]string{re}, 2)}}})
	in := rtInfo{label: "sibling objects with long names", family: "siblings", eq: !os.omit}
	for _, v := range vals {
		roundTrip(w, reflect.ValueOf(v), os, in)
		w.Count("sibling_values", 1)
	}
	w.Shape(fmt.Sprintf("siblings|%d|%d|%s", a.Members, a.NameLen, os.name))
}

func genSiblings(w *run.W, mine func() bool) {
	i := 0
	for _, sh := range [][2]int{{3, 600}, {5, 250}, {10, 120}, {40, 30}, {64, 17}, {65, 8}, {70, 5}, {130, 5}, {2, 5}} {
		for _, reuse := range []int{0, sh[0] / 2, sh[0] - 1} {
			i++
			if mine() {
				w.Do("siblings", &sibArgs{Members: sh[0], NameLen: sh[1], Reuse: reuse, Opt: i})
			}
		}
	}
}

package main

// Generated type universe of C04: exactly the property's list — bools, all integer widths,
// finite floats, valid-UTF-8 strings, []byte and [N]byte, time.Time, time.Duration (only where
// a representation exists), slices, arrays, maps keyed by strings/integers/floats, pointers,
// structs with random tag options, and canonical untyped values inside `any`.

import (
	"fmt"
	"math"
	"math/rand/v2"
	"reflect"
	"strings"
	"time"
)

var (
	tBool     = reflect.TypeFor[bool]()
	tString   = reflect.TypeFor[string]()
	tBytes    = reflect.TypeFor[[]byte]()
	tTime     = reflect.TypeFor[time.Time]()
	tDuration = reflect.TypeFor[time.Duration]()
	tAny      = reflect.TypeFor[any]()
	tFloat32  = reflect.TypeFor[float32]()
	tFloat64  = reflect.TypeFor[float64]()
)

var intTypes = []reflect.Type{
	reflect.TypeFor[int](), reflect.TypeFor[int8](), reflect.TypeFor[int16](), reflect.TypeFor[int32](), reflect.TypeFor[int64](),
	reflect.TypeFor[uint](), reflect.TypeFor[uint8](), reflect.TypeFor[uint16](), reflect.TypeFor[uint32](), reflect.TypeFor[uint64](), reflect.TypeFor[uintptr](),
}

// features of a generated (type, option set) pair that decide which oracle clauses apply
type features struct {
	omit       bool // an omitzero/omitempty option (tag or caller option) is in play
	iface      bool // the type contains `any`
	lossyTime  bool // a time layout that does not keep the full instant/zone
	formatTag  bool // some field uses the format tag (needs ExperimentalSupportFormatTag)
	bigStruct  bool // a struct with more than 64 fields
	kinds      map[string]bool
	nFields    int
	maxDepth   int
	embedded   bool
	quotedName bool
}

type tgen struct {
	r        *rand.Rand
	f        *features
	allowDur bool // a plain time.Duration has a representation (FormatDurationAsNano)
	names    int
	budget   int // remaining struct fields for the whole type
}

func (g *tgen) kind(k string) {
	if g.f.kinds == nil {
		g.f.kinds = map[string]bool{}
	}
	g.f.kinds[k] = true
}

func (g *tgen) leaf() reflect.Type {
	switch k := g.r.IntN(20); {
	case k < 1:
		g.kind("bool")
		return tBool
	case k < 7:
		g.kind("int")
		return intTypes[g.r.IntN(len(intTypes))]
	case k < 9:
		g.kind("float32")
		return tFloat32
	case k < 11:
		g.kind("float64")
		return tFloat64
	case k < 14:
		g.kind("string")
		return tString
	case k < 15:
		g.kind("bytes")
		return tBytes
	case k < 16:
		g.kind("bytearray")
		return reflect.ArrayOf([...]int{0, 1, 2, 3, 5, 16}[g.r.IntN(6)], reflect.TypeFor[byte]())
	case k < 17:
		g.kind("time")
		return tTime
	case k < 18 && g.allowDur:
		g.kind("duration")
		return tDuration
	default:
		g.kind("any")
		g.f.iface = true
		return tAny
	}
}

var keyTypes = append(append([]reflect.Type{tString, tString, tFloat32, tFloat64}, intTypes...), tString)

func (g *tgen) typ(depth int) reflect.Type {
	if depth > g.f.maxDepth {
		g.f.maxDepth = depth
	}
	k := g.r.IntN(14)
	if depth >= 5 {
		k = g.r.IntN(6)
	}
	switch {
	case k < 6:
		return g.leaf()
	case k == 6 || k == 7:
		g.kind("slice")
		return reflect.SliceOf(g.typ(depth + 1))
	case k == 8:
		g.kind("pointer")
		return reflect.PointerTo(g.typ(depth + 1))
	case k == 9 || k == 10:
		g.kind("map")
		kt := keyTypes[g.r.IntN(len(keyTypes))]
		g.kind("mapkey-" + kt.Kind().String())
		return reflect.MapOf(kt, g.typ(depth+1))
	case k == 11:
		g.kind("array")
		return reflect.ArrayOf(g.r.IntN(4), g.typ(depth+1))
	default:
		return g.structType(depth + 1)
	}
}

// JSON names: this library version accepts any unquoted name that avoids the reserved characters
// , \ ' " ` (single-quoted names are not supported at the name position), so names needing
// escapes in JSON (controls, <&>, U+2028, tab, newline) are written raw.
var nameBases = []string{"", "", "", "a", "b", "Name", "x y", "é", "a-b", "a_b", "<&>", " ", "😀", "tab\there", "nl\nx", "\u2028", "\x01", "ÄÖ", "日本", "null", "k", "~/", "\u007f"}

func tagQuote(name string) string { return name }

var bytesFormats = []string{"base64", "base64url", "base32", "base32hex", "base16", "hex", "array"}
var timeFormatsExact = []string{"RFC3339Nano", "unix", "unixmilli", "unixmicro", "unixnano", "'2006-01-02T15:04:05.000000000Z07:00'"}
var timeFormatsLossy = []string{"RFC3339", "DateTime", "DateOnly", "TimeOnly", "RFC1123Z", "RFC822Z", "ANSIC", "RubyDate", "StampNano", "Kitchen", "'2006-01-02'", "'Jan _2 2006 15:04:05.000 -0700'"}
var durFormats = []string{"sec", "milli", "micro", "nano", "units", "iso8601"}

func isNumericKind(k reflect.Kind) bool {
	switch k {
	case reflect.Int, reflect.Int8, reflect.Int16, reflect.Int32, reflect.Int64,
		reflect.Uint, reflect.Uint8, reflect.Uint16, reflect.Uint32, reflect.Uint64, reflect.Uintptr, reflect.Float32, reflect.Float64:
		return true
	}
	return false
}

func isByteSeq(t reflect.Type) bool {
	return (t.Kind() == reflect.Slice || t.Kind() == reflect.Array) && t.Elem().Kind() == reflect.Uint8
}

func (g *tgen) structType(depth int) reflect.Type {
	g.kind("struct")
	n := 1 + g.r.IntN(6)
	switch g.r.IntN(40) {
	case 0:
		n = 60 + g.r.IntN(80)
	case 1:
		n = 0
	}
	if n > g.budget {
		n = g.budget
	}
	g.budget -= n
	if n > 64 {
		g.f.bigStruct = true
	}
	var fs []reflect.StructField
	for i := 0; i < n; i++ {
		g.names++
		g.f.nFields++
		sf := reflect.StructField{Name: fmt.Sprintf("F%d", g.names)}
		var ft reflect.Type
		// a directly formatted duration field now and then
		wantDur := g.r.IntN(12) == 0
		if wantDur {
			g.kind("duration")
			ft = tDuration
		} else if n > 20 {
			ft = g.leaf()
		} else {
			ft = g.typ(depth)
		}
		// embedded struct
		if ft.Kind() == reflect.Struct && ft != tTime && ft.NumField() > 0 && g.r.IntN(3) == 0 {
			sf.Type = ft
			sf.Tag = `json:",embed"`
			g.f.embedded = true
			fs = append(fs, sf)
			continue
		}
		var opts []string
		name := ""
		if g.r.IntN(2) == 0 {
			base := nameBases[g.r.IntN(len(nameBases))]
			name = fmt.Sprintf("%s%d", base, g.names) // the counter keeps names unique, also case-insensitively
			if g.r.IntN(2) == 0 {
				name = fmt.Sprintf("%d%s", g.names, base)
			}
		}
		tq := tagQuote(name)
		if strings.ContainsAny(name, "\t\n<&>\x01\u2028\u007f") {
			g.f.quotedName = true
		}
		switch g.r.IntN(10) {
		case 0:
			opts = append(opts, "omitempty")
			g.f.omit = true
		case 1:
			opts = append(opts, "omitzero")
			g.f.omit = true
		case 2:
			opts = append(opts, "omitzero", "omitempty")
			g.f.omit = true
		}
		base := ft
		if base.Kind() == reflect.Pointer && g.r.IntN(2) == 0 {
			base = base.Elem()
		}
		if isNumericKind(base.Kind()) && base != tDuration && g.r.IntN(3) == 0 {
			opts = append(opts, "string")
		}
		switch g.r.IntN(8) {
		case 0:
			opts = append(opts, "case:ignore")
		case 1:
			opts = append(opts, "case:strict")
		}
		// format goes last
		switch {
		case ft == tDuration:
			if !g.allowDur || g.r.IntN(3) > 0 {
				f := durFormats[g.r.IntN(len(durFormats))]
				if g.r.IntN(4) == 0 && f != "units" && f != "iso8601" {
					opts = append(opts, "string")
				}
				opts = append(opts, "format:"+f)
				g.f.formatTag = true
			}
		case ft == tTime && g.r.IntN(2) == 0:
			if g.r.IntN(3) == 0 {
				opts = append(opts, "format:"+timeFormatsLossy[g.r.IntN(len(timeFormatsLossy))])
				g.f.lossyTime = true
			} else {
				f := timeFormatsExact[g.r.IntN(len(timeFormatsExact))]
				if strings.HasPrefix(f, "unix") && g.r.IntN(3) == 0 {
					opts = append(opts, "string")
				}
				opts = append(opts, "format:"+f)
			}
			g.f.formatTag = true
		case isByteSeq(ft) && g.r.IntN(2) == 0:
			opts = append(opts, "format:"+bytesFormats[g.r.IntN(len(bytesFormats))])
			g.f.formatTag = true
		case (ft.Kind() == reflect.Float32 || ft.Kind() == reflect.Float64) && g.r.IntN(6) == 0:
			opts = append(opts, "format:nonfinite")
			g.f.formatTag = true
		case (ft.Kind() == reflect.Slice && !isByteSeq(ft) || ft.Kind() == reflect.Map) && g.r.IntN(4) == 0:
			opts = append(opts, "format:"+[...]string{"emitnull", "emitempty"}[g.r.IntN(2)])
			g.f.formatTag = true
		}
		sf.Type = ft
		if tq != "" || len(opts) > 0 {
			body := tq
			for _, o := range opts {
				body += "," + o
			}
			sf.Tag = reflect.StructTag(fmt.Sprintf(`json:%q`, body))
		}
		fs = append(fs, sf)
	}
	return reflect.StructOf(fs)
}

// skeleton is a compact rendering of the type's shape (the evidence shape key).
func skeleton(t reflect.Type, depth int) string {
	if depth > 6 {
		return "…"
	}
	switch t.Kind() {
	case reflect.Slice:
		if isByteSeq(t) {
			return "B"
		}
		return "[]" + skeleton(t.Elem(), depth+1)
	case reflect.Array:
		if isByteSeq(t) {
			return fmt.Sprintf("B%d", t.Len())
		}
		return fmt.Sprintf("[%d]%s", t.Len(), skeleton(t.Elem(), depth+1))
	case reflect.Map:
		return "M[" + t.Key().Kind().String() + "]" + skeleton(t.Elem(), depth+1)
	case reflect.Pointer:
		return "*" + skeleton(t.Elem(), depth+1)
	case reflect.Interface:
		return "any"
	case reflect.Struct:
		if t == tTime {
			return "time"
		}
		var sb strings.Builder
		sb.WriteString("S{")
		n := t.NumField()
		for i := 0; i < n && i < 8; i++ {
			f := t.Field(i)
			sb.WriteString(skeleton(f.Type, depth+1))
			tag := f.Tag.Get("json")
			for _, o := range []string{"omitempty", "omitzero", "string", "embed", "format:", "case:"} {
				if strings.Contains(tag, o) {
					sb.WriteString("'" + o[:2])
				}
			}
			sb.WriteByte(';')
		}
		if n > 8 {
			fmt.Fprintf(&sb, "+%d", n/16)
		}
		sb.WriteByte('}')
		return sb.String()
	}
	if t == tDuration {
		return "dur"
	}
	return t.Kind().String()
}

// ---------------------------------------------------------------------------------
// values

var strPool = []string{"", "a", "hello", "é😀", "<>&", " ", "\"\\/", "\x00\x1f", "null", "true", "1", "  ", "a/b~c", "\u007f", "�", "日本語", "'", "tab\tnl\n", strings.Repeat("x", 300), strings.Repeat("é", 70), "0", "-0", "1e5",
	"\"", "a\"", "\\", "x\\", "\\\"", "[]", "{}", "\"\"", // ends in quote/backslash, looks like an empty JSON value (omitempty decides on the written text)
	// families of distinct strings with the same length, the same first 8 and the same last 8 bytes (what a string cache hashes on)
	"https://h/users/1001/profile.json", "https://h/users/1002/profile.json", "https://h/users/2001/profile.json",
	"prefix00-A-suffix00", "prefix00-B-suffix00", "prefix00-C-suffix00",
	"k0000000" + strings.Repeat("m", 200) + "1tail0000", "k0000000" + strings.Repeat("m", 200) + "2tail0000"}
var i64Pool = []int64{0, 1, -1, math.MaxInt64, math.MinInt64, math.MaxInt64 - 1, math.MinInt64 + 1, 1 << 53, 1<<53 + 1, -(1 << 53) - 1, 127, 128, -128, -129, 255, 256, 32767, 32768, -32768, 65535, 65536, 1<<31 - 1, 1 << 31, -(1 << 31), 1<<32 - 1, 1 << 32, 1e18, 999999999999999999, 1e9, 1e10, 1e15, 1e16, 1e17,
	-8446744073709551616, -8446744073709551617, -8446744073709551615} // (the last three are 10^19 and its neighbours when taken as uint64)
var f64Pool = []float64{0, math.Copysign(0, -1), 1, -1, 1.5, 1e21, 1e-7, 1e-6, 1e20, 999999999999999900000, math.MaxFloat64, math.SmallestNonzeroFloat64, math.MaxFloat32, math.SmallestNonzeroFloat32, 0.1, 0.3, 1 << 53, 1<<53 + 2, 123456789.123456789, 5e-324, 2.2250738585072014e-308, 1e23, 8.41e21, 4.35e-10, -1e-7, 9.999999e-7,
	7.038531e-26} // the one float32 whose shortest digits, parsed with 64 bits and then narrowed, give its neighbour

func (g *tgen) int64v() int64 {
	switch g.r.IntN(4) {
	case 0:
		return i64Pool[g.r.IntN(len(i64Pool))]
	case 1:
		return i64Pool[g.r.IntN(len(i64Pool))] + int64(g.r.IntN(5)) - 2
	case 2:
		return int64(g.r.Uint64())
	}
	return int64(g.r.IntN(2000)) - 1000
}

func (g *tgen) float64v() float64 {
	for {
		var f float64
		switch g.r.IntN(4) {
		case 0:
			f = f64Pool[g.r.IntN(len(f64Pool))]
		case 1:
			f = math.Float64frombits(g.r.Uint64())
		case 2:
			f = float64(g.r.Int64N(1_000_000_000)) / math.Pow(10, float64(g.r.IntN(12)))
			if g.r.IntN(2) == 0 {
				f = -f
			}
		default:
			f = math.Float64frombits(math.Float64bits(f64Pool[g.r.IntN(len(f64Pool))]) + uint64(g.r.IntN(5)) - 2)
		}
		if !math.IsNaN(f) && !math.IsInf(f, 0) {
			return f
		}
	}
}

func (g *tgen) float32v() float32 {
	for {
		var f float32
		switch g.r.IntN(3) {
		case 0:
			f = float32(f64Pool[g.r.IntN(len(f64Pool))])
		case 1:
			f = math.Float32frombits(g.r.Uint32())
		default:
			f = float32(float64(g.r.Int64N(100_000_000)) / math.Pow(10, float64(g.r.IntN(12))))
		}
		if f == f && !math.IsInf(float64(f), 0) {
			return f
		}
	}
}

var secPool = []int64{0, 1, -1, 59, 60, 86399, 86400, 1e9, -1e9, 999999999, 253402300799, -62135596800, -62167219200, 1700000000, 4102444800, -2208988800, 1e10, -1e10, 951782400, 68169600}
var nsecPool = []int64{0, 1, 999999999, 500000000, 123456789, 1000, 999, 1000000, 999999, 100000000, 120000000, 10}

// timev returns a time with year in [0,9999] and a whole-minute zone offset (RFC 3339 can
// carry neither seconds in an offset nor other years).
func (g *tgen) timev() time.Time {
	for {
		sec := secPool[g.r.IntN(len(secPool))]
		if g.r.IntN(2) == 0 {
			sec = g.r.Int64N(253402300799+62167219200) - 62167219200
		}
		nsec := nsecPool[g.r.IntN(len(nsecPool))]
		if g.r.IntN(3) == 0 {
			nsec = g.r.Int64N(1e9)
		}
		t := time.Unix(sec, nsec).UTC()
		switch g.r.IntN(4) {
		case 0:
			t = t.In(time.FixedZone("", (g.r.IntN(2*23*60+1)-23*60)*60))
		case 1:
			t = t.In(time.FixedZone("", [...]int{3600, -3600, 19800, -12600, 45 * 60, 23*3600 + 59*60, -(23*3600 + 59*60), 0}[g.r.IntN(8)]))
		}
		if y := t.Year(); y >= 0 && y <= 9999 {
			if yu := t.UTC().Year(); yu >= 0 && yu <= 9999 {
				return t
			}
		}
	}
}

func (g *tgen) durv() time.Duration {
	switch g.r.IntN(5) {
	case 0:
		base := []int64{0, 1, 999, 1000, 1e6, 1e9, 60e9, 3600e9, math.MaxInt64, math.MinInt64, math.MaxInt64 / 1e9 * 1e9, 1e18, 86400e9}[g.r.IntN(13)]
		d := base + int64(g.r.IntN(7)) - 3
		if g.r.IntN(2) == 0 && d != math.MinInt64 {
			d = -d
		}
		return time.Duration(d)
	case 1:
		return time.Duration(g.r.Uint64())
	case 2:
		return time.Duration(g.r.Int64N(1e12) - 5e11)
	case 3:
		// fractions with trailing zeros
		return time.Duration(g.r.Int64N(1000)) * time.Duration([]int64{1, 10, 100, 1e3, 1e4, 1e6, 1e7, 1e9, 1e10, 60e9, 3600e9}[g.r.IntN(11)])
	}
	return time.Duration(g.r.Int64N(86400e9 * 400))
}

func (g *tgen) anyv(depth int) any {
	k := g.r.IntN(7)
	if depth > 3 {
		k = g.r.IntN(4)
	}
	switch k {
	case 0:
		return nil
	case 1:
		return g.r.IntN(2) == 0
	case 2:
		return strPool[g.r.IntN(len(strPool))]
	case 3:
		return g.float64v()
	case 4:
		if g.r.IntN(6) == 0 {
			return []any(nil)
		}
		a := make([]any, g.r.IntN(4))
		for i := range a {
			a[i] = g.anyv(depth + 1)
		}
		return a
	default:
		if g.r.IntN(6) == 0 {
			return map[string]any(nil)
		}
		m := map[string]any{}
		for i := g.r.IntN(4); i > 0; i-- {
			m[strPool[g.r.IntN(len(strPool))]] = g.anyv(depth + 1)
		}
		return m
	}
}

func (g *tgen) value(t reflect.Type, depth int) reflect.Value {
	v := reflect.New(t).Elem()
	switch t.Kind() {
	case reflect.Bool:
		v.SetBool(g.r.IntN(2) == 0)
	case reflect.Int, reflect.Int8, reflect.Int16, reflect.Int32:
		v.SetInt(reflect.ValueOf(g.int64v()).Convert(t).Int())
	case reflect.Int64:
		if t == tDuration {
			v.SetInt(int64(g.durv()))
		} else {
			v.SetInt(g.int64v())
		}
	case reflect.Uint, reflect.Uint8, reflect.Uint16, reflect.Uint32, reflect.Uint64, reflect.Uintptr:
		v.SetUint(reflect.ValueOf(uint64(g.int64v())).Convert(t).Uint())
	case reflect.Float32:
		v.SetFloat(float64(g.float32v()))
	case reflect.Float64:
		v.SetFloat(g.float64v())
	case reflect.String:
		v.SetString(strPool[g.r.IntN(len(strPool))])
	case reflect.Slice:
		if g.r.IntN(5) == 0 {
			return v // nil
		}
		n := g.r.IntN(4)
		if isByteSeq(t) {
			n = [...]int{0, 1, 2, 3, 4, 5, 6, 7, 31, 32, 33, 100}[g.r.IntN(12)]
		}
		s := reflect.MakeSlice(t, n, n)
		for i := 0; i < n; i++ {
			s.Index(i).Set(g.value(t.Elem(), depth+1))
		}
		v.Set(s)
	case reflect.Array:
		for i := 0; i < t.Len(); i++ {
			v.Index(i).Set(g.value(t.Elem(), depth+1))
		}
	case reflect.Map:
		if g.r.IntN(5) == 0 {
			return v
		}
		m := reflect.MakeMap(t)
		n := g.r.IntN(4)
		if g.r.IntN(20) == 0 {
			n = 20
		}
		for i := 0; i < n; i++ {
			m.SetMapIndex(g.value(t.Key(), depth+1), g.value(t.Elem(), depth+1))
		}
		v.Set(m)
	case reflect.Pointer:
		if g.r.IntN(4) == 0 {
			return v
		}
		p := reflect.New(t.Elem())
		p.Elem().Set(g.value(t.Elem(), depth+1))
		v.Set(p)
	case reflect.Interface:
		if x := g.anyv(depth); x != nil {
			v.Set(reflect.ValueOf(x))
		}
	case reflect.Struct:
		if t == tTime {
			v.Set(reflect.ValueOf(g.timev()))
			return v
		}
		for i := 0; i < t.NumField(); i++ {
			if g.r.IntN(8) == 0 {
				continue // zero value (exercises omitzero)
			}
			v.Field(i).Set(g.value(t.Field(i).Type, depth+1))
		}
	}
	return v
}

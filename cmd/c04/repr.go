package main

// Meaning of the documented alternative representations, checked on the first Marshal output of
// the fixed boxes of the dedicated sweeps.  A round trip alone cannot see a pair of errors that
// cancel (a wrong sign rule used by both the formatter and the parser, a padding character
// changed on both sides); the representation is *documented* (ExperimentalSupportFormatTag:
// "a possibly fractional JSON number of the number of seconds (or milliseconds, …) since the Unix
// epoch", "encoded using time.Time.Format", "RFC 4648, section 6", "encoded using
// time.Duration.String", "ISO 8601 … using only accurate units of hours, minutes, and seconds"),
// so the text must denote the value.  Everything here is computed with math/big, strconv, time
// and the toolchain's RFC 4648 packages — never with the library under test.

import (
	"encoding/base32"
	"encoding/base64"
	"encoding/hex"
	"fmt"
	"math/big"
	"reflect"
	"regexp"
	"strconv"
	"strings"
	"time"

	"verif/ref"
	"verif/run"
)

// scalarText returns the text of a JSON number, or of a JSON string (alternative
// representations may be quoted by the string option, StringifyNumbers, or as map keys).
func scalarText(n *ref.Node) (string, bool) {
	switch n.Kind {
	case ref.Number:
		return n.Raw, true
	case ref.String:
		return n.S, true
	}
	return "", false
}

var pow10 = func() (p [19]*big.Int) {
	for i := range p {
		p[i] = new(big.Int).Exp(big.NewInt(10), big.NewInt(int64(i)), nil)
	}
	return
}()

// decimalTimes parses a plain decimal (JSON number grammar without exponent is what the formats
// write; an exponent is accepted as well) and returns it multiplied by 10^scale, if integral.
func decimalTimes(s string, scale int) (*big.Int, bool) {
	if s == "" || strings.ContainsAny(s, "+ _xXpP/") {
		return nil, false
	}
	r, ok := new(big.Rat).SetString(s)
	if !ok {
		return nil, false
	}
	r.Mul(r, new(big.Rat).SetInt(pow10[scale]))
	if !r.IsInt() {
		return nil, false
	}
	return new(big.Int).Set(r.Num()), true
}

var iso8601Re = regexp.MustCompile(`^(-?)PT(?:([0-9]+)H)?(?:([0-9]+)M)?(?:([0-9]+)(?:\.([0-9]{1,9}))?S)?$`)

// iso8601Nanos evaluates a duration written with the accurate designators only.
func iso8601Nanos(s string) (*big.Int, bool) {
	m := iso8601Re.FindStringSubmatch(s)
	if m == nil || strings.HasSuffix(s, "PT") {
		return nil, false
	}
	num := func(x string) *big.Int {
		v := new(big.Int)
		if x != "" {
			v.SetString(x, 10)
		}
		return v
	}
	total := num(m[2])
	total.Mul(total, big.NewInt(60)).Add(total, num(m[3]))
	total.Mul(total, big.NewInt(60)).Add(total, num(m[4]))
	total.Mul(total, pow10[9])
	if m[5] != "" {
		total.Add(total, num(m[5]+strings.Repeat("0", 9-len(m[5]))))
	}
	if m[1] == "-" {
		total.Neg(total)
	}
	return total, true
}

type reprCheck struct {
	w      *run.W
	os     *optSet
	family string
	obj    map[string]*ref.Node
	b1     []byte
}

func (c *reprCheck) bad(field, cause, format string, a ...any) {
	c.w.Violate("representation", map[string]string{"options": c.os.name, "clause": "documented-representation", "family": c.family, "field": field, "cause": cause},
		"%s\n output: %s", fmt.Sprintf(format, a...), run.Trunc(string(c.b1), 1200))
}

// number: the member denotes want/10^scale exactly.
func (c *reprCheck) number(field string, want *big.Int, scale int, what string) {
	n := c.obj[field]
	if n == nil {
		c.bad(field, "member-missing", "member %q missing", field)
		return
	}
	s, ok := scalarText(n)
	got, ok2 := decimalTimes(s, scale)
	if !ok || !ok2 || got.Cmp(want) != 0 {
		c.bad(field, "number-does-not-denote-the-value", "%s: member %q is %s, which is not %s×10^-%d", what, field, run.Trunc(s, 80), want, scale)
		return
	}
	c.w.Count("representation_checked", 1)
}

func (c *reprCheck) text(field, want, what string) {
	n := c.obj[field]
	if n == nil || n.Kind != ref.String || n.S != want {
		got := "<missing>"
		if n != nil {
			got = n.Raw
		}
		c.bad(field, "text-differs-from-documented-encoding", "%s: member %q is %s, documented encoding gives %q", what, field, run.Trunc(got, 200), run.Trunc(want, 200))
		return
	}
	c.w.Count("representation_checked", 1)
}

func newReprCheck(w *run.W, os *optSet, family string, b1 []byte) *reprCheck {
	n := ref.Parse(b1, ref.Opts{AllowDup: true})
	if n == nil || n.Kind != ref.Object {
		return nil // the round-trip oracle reports unparsable output
	}
	c := &reprCheck{w: w, os: os, family: family, obj: map[string]*ref.Node{}, b1: b1}
	for _, m := range n.Members {
		c.obj[m.Name] = m.Value
	}
	return c
}

func timeNanos(t time.Time) *big.Int {
	n := new(big.Int).Mul(big.NewInt(t.Unix()), pow10[9])
	return n.Add(n, big.NewInt(int64(t.Nanosecond())))
}

// reprTimes checks every time.Time / *time.Time field of a box against its format tag.
func reprTimes(w *run.W, os *optSet, family string, b1 []byte, box reflect.Value) {
	c := newReprCheck(w, os, family, b1)
	if c == nil {
		return
	}
	for i := 0; i < box.NumField(); i++ {
		sf := box.Type().Field(i)
		f := box.Field(i)
		if f.Kind() == reflect.Pointer {
			f = f.Elem()
		}
		if f.Type() != tTime {
			continue
		}
		t := f.Interface().(time.Time)
		what := fmt.Sprintf("time %s", t.Format(time.RFC3339Nano))
		switch format := tagFormat(sf.Tag); format {
		case "":
			c.text(sf.Name, t.Format(time.RFC3339Nano), what)
		case "unix":
			c.number(sf.Name, timeNanos(t), 9, what+" as unix seconds")
		case "unixmilli":
			c.number(sf.Name, timeNanos(t), 6, what+" as unix milliseconds")
		case "unixmicro":
			c.number(sf.Name, timeNanos(t), 3, what+" as unix microseconds")
		case "unixnano":
			c.number(sf.Name, timeNanos(t), 0, what+" as unix nanoseconds")
		default:
			layout, ok := namedLayouts[format]
			if !ok {
				layout = format
			}
			c.text(sf.Name, t.Format(layout), what+" under layout "+strconv.Quote(layout))
		}
	}
}

func reprDurations(w *run.W, os *optSet, family string, b1 []byte, box reflect.Value) {
	c := newReprCheck(w, os, family, b1)
	if c == nil {
		return
	}
	for i := 0; i < box.NumField(); i++ {
		sf := box.Type().Field(i)
		f := box.Field(i)
		if f.Kind() == reflect.Pointer {
			f = f.Elem()
		}
		if f.Type() != tDuration {
			continue
		}
		d := time.Duration(f.Int())
		what := fmt.Sprintf("duration %d ns", int64(d))
		switch format := tagFormat(sf.Tag); format {
		case "sec":
			c.number(sf.Name, big.NewInt(int64(d)), 9, what+" as seconds")
		case "milli":
			c.number(sf.Name, big.NewInt(int64(d)), 6, what+" as milliseconds")
		case "micro":
			c.number(sf.Name, big.NewInt(int64(d)), 3, what+" as microseconds")
		case "nano", "": // "" only occurs under FormatDurationAsNano / v1 defaults
			c.number(sf.Name, big.NewInt(int64(d)), 0, what+" as nanoseconds")
		case "units":
			c.text(sf.Name, d.String(), what+" in units")
		case "iso8601":
			n := c.obj[sf.Name]
			var got *big.Int
			ok := false
			if n != nil && n.Kind == ref.String {
				got, ok = iso8601Nanos(n.S)
			}
			if !ok || got.Cmp(big.NewInt(int64(d))) != 0 {
				raw := "<missing>"
				if n != nil {
					raw = n.Raw
				}
				c.bad(sf.Name, "iso8601-does-not-denote-the-value", "%s: member %q is %s", what, sf.Name, raw)
				continue
			}
			c.w.Count("representation_checked", 1)
		}
	}
}

func reprBytes(w *run.W, os *optSet, family string, b1 []byte, box reflect.Value) {
	c := newReprCheck(w, os, family, b1)
	if c == nil {
		return
	}
	for i := 0; i < box.NumField(); i++ {
		sf := box.Type().Field(i)
		f := box.Field(i)
		format := tagFormat(sf.Tag)
		if !isByteSeq(f.Type()) || format == "" || format == "array" {
			continue // the default depends on the option set (v1: byte arrays as arrays); formats do not
		}
		var raw []byte
		if f.Kind() == reflect.Array {
			raw = make([]byte, f.Len())
			reflect.Copy(reflect.ValueOf(raw), f)
		} else {
			if f.IsNil() && os.nilAsNull {
				continue
			}
			raw = f.Bytes()
		}
		var want string
		switch format {
		case "base64":
			want = base64.StdEncoding.EncodeToString(raw)
		case "base64url":
			want = base64.URLEncoding.EncodeToString(raw)
		case "base32":
			want = base32.StdEncoding.EncodeToString(raw)
		case "base32hex":
			want = base32.HexEncoding.EncodeToString(raw)
		case "base16", "hex":
			want = hex.EncodeToString(raw)
		}
		c.text(sf.Name, want, fmt.Sprintf("%d bytes as %s", len(raw), format))
	}
}

// reprInts: an integer is written in decimal, exactly (also as a quoted number and as a map key).
func reprInts(w *run.W, os *optSet, family string, b1 []byte, plain string) {
	c := newReprCheck(w, os, family, b1)
	if c == nil {
		return
	}
	want, _ := new(big.Int).SetString(plain, 10)
	for _, field := range []string{"Plain", "Quoted", "p", "PtrQ"} {
		c.number(field, want, 0, "integer "+plain)
	}
	if ks := c.obj["KeyS"]; ks == nil || ks.Kind != ref.Object || len(ks.Members) != 1 || ks.Members[0].Name != plain {
		c.bad("KeyS", "map-key-differs-from-decimal", "integer %s as a map key", plain)
	} else {
		w.Count("representation_checked", 1)
	}
}

package main

import (
	"fmt"
	"math"
	"reflect"
	"strings"
	"time"
)

// eqCtx carries what the equality relation needs to know about the options in force.
type eqCtx struct {
	nilAsNull   bool // nil slices/maps are written as null (FormatNil*AsNull, v1 defaults): inside `any` they come back as nil
	instantOnly bool // the field uses a unix* time format, which does not carry the zone
}

// chainNil reports whether following the pointers of v reaches a nil pointer, and returns the
// value at the end of the chain otherwise.
func chainNil(v reflect.Value) (reflect.Value, bool) {
	for v.Kind() == reflect.Pointer {
		if v.IsNil() {
			return v, true
		}
		v = v.Elem()
	}
	return v, false
}

func emptyLike(v reflect.Value) bool {
	switch v.Kind() {
	case reflect.Slice, reflect.Map:
		return v.IsNil()
	}
	return false
}

// equalRT is the equality of the round-trip property: nil and empty containers are identified,
// a chain of pointers ending in nil is identified with any other such chain, floats are compared
// by bits, times by instant and zone offset.  It returns "" or the path of the first difference.
func equalRT(a, b reflect.Value, c *eqCtx, path string) string {
	if a.Type() != b.Type() {
		return fmt.Sprintf("%s: type %v vs %v", path, a.Type(), b.Type())
	}
	switch a.Kind() {
	case reflect.Pointer:
		ea, na := chainNil(a)
		eb, nb := chainNil(b)
		if na || nb {
			if na != nb {
				return fmt.Sprintf("%s: nil pointer vs non-nil (%v, %v)", path, na, nb)
			}
			return ""
		}
		return equalRT(ea, eb, c, path+"*")
	case reflect.Bool:
		if a.Bool() != b.Bool() {
			return fmt.Sprintf("%s: %v vs %v", path, a.Bool(), b.Bool())
		}
	case reflect.Int, reflect.Int8, reflect.Int16, reflect.Int32, reflect.Int64:
		if a.Int() != b.Int() {
			return fmt.Sprintf("%s: %d vs %d", path, a.Int(), b.Int())
		}
	case reflect.Uint, reflect.Uint8, reflect.Uint16, reflect.Uint32, reflect.Uint64, reflect.Uintptr:
		if a.Uint() != b.Uint() {
			return fmt.Sprintf("%s: %d vs %d", path, a.Uint(), b.Uint())
		}
	case reflect.Float32, reflect.Float64:
		if math.Float64bits(a.Float()) != math.Float64bits(b.Float()) {
			return fmt.Sprintf("%s: %v (%#x) vs %v (%#x)", path, a.Float(), math.Float64bits(a.Float()), b.Float(), math.Float64bits(b.Float()))
		}
	case reflect.String:
		if a.String() != b.String() {
			return fmt.Sprintf("%s: %q vs %q", path, a.String(), b.String())
		}
	case reflect.Slice, reflect.Array:
		if a.Len() != b.Len() {
			return fmt.Sprintf("%s: length %d vs %d", path, a.Len(), b.Len())
		}
		for i := 0; i < a.Len(); i++ {
			if d := equalRT(a.Index(i), b.Index(i), c, fmt.Sprintf("%s[%d]", path, i)); d != "" {
				return d
			}
		}
	case reflect.Map:
		if a.Len() != b.Len() {
			return fmt.Sprintf("%s: map size %d vs %d", path, a.Len(), b.Len())
		}
		it := a.MapRange()
		for it.Next() {
			bv := b.MapIndex(it.Key())
			if !bv.IsValid() {
				return fmt.Sprintf("%s: key %v missing", path, it.Key())
			}
			if d := equalRT(it.Value(), bv, c, fmt.Sprintf("%s[%v]", path, it.Key())); d != "" {
				return d
			}
			// float keys: +0 and -0 are one key; the stored key keeps its sign
			if k := it.Key(); k.Kind() == reflect.Float32 || k.Kind() == reflect.Float64 {
				if k.Float() == 0 {
					kb := findZeroKey(b)
					if kb.IsValid() && math.Signbit(kb.Float()) != math.Signbit(k.Float()) {
						return fmt.Sprintf("%s: zero key sign differs", path)
					}
				}
			}
		}
	case reflect.Interface:
		an, bn := a.IsNil(), b.IsNil()
		switch {
		case an && bn:
			return ""
		case an != bn:
			other := a
			if an {
				other = b
			}
			if c.nilAsNull && emptyLike(other.Elem()) {
				return ""
			}
			return fmt.Sprintf("%s: nil interface vs %v", path, other.Elem().Type())
		}
		if c.nilAsNull && emptyLike(a.Elem()) && emptyLike(b.Elem()) {
			return ""
		}
		return equalRT(a.Elem(), b.Elem(), c, path+".(any)")
	case reflect.Struct:
		if a.Type() == tTime {
			ta, tb := a.Interface().(time.Time), b.Interface().(time.Time)
			_, oa := ta.Zone()
			_, ob := tb.Zone()
			if !ta.Equal(tb) || (oa != ob && !c.instantOnly) {
				return fmt.Sprintf("%s: time %v vs %v", path, ta.Format(time.RFC3339Nano), tb.Format(time.RFC3339Nano))
			}
			return ""
		}
		for i := 0; i < a.NumField(); i++ {
			fc := c
			if strings.Contains(a.Type().Field(i).Tag.Get("json"), "format:unix") {
				c2 := *c
				c2.instantOnly = true
				fc = &c2
			}
			if d := equalRT(a.Field(i), b.Field(i), fc, path+"."+a.Type().Field(i).Name); d != "" {
				return d
			}
		}
	default:
		return fmt.Sprintf("%s: unexpected kind %v", path, a.Kind())
	}
	return ""
}

func findZeroKey(m reflect.Value) reflect.Value {
	it := m.MapRange()
	for it.Next() {
		if it.Key().Float() == 0 {
			return it.Key()
		}
	}
	return reflect.Value{}
}

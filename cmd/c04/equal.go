package main

import (
	"fmt"
	"math"
	"reflect"
	"strings"
	"time"
	"unicode"
)

// eqCtx carries what the equality relation needs to know about the options in force.
type eqCtx struct {
	nilAsNull bool // nil slices/maps are written as null (FormatNil*AsNull, v1 defaults)
}

// fieldFmt is what a struct field's format tag says about the value directly in that field
// (it reaches through pointers, never into elements of slices, arrays, maps or nested structs).
type fieldFmt struct {
	instantOnly bool   // unix* time formats do not carry the zone
	layout      string // a time layout that does not carry the whole value (see projectTime)
}

// difference found by equalRT: where, what, and a normalized class for violation signatures.
type diff struct {
	path, what, cause string
}

func (d *diff) String() string { return d.path + ": " + d.what }

// The named layouts of the time package that the format tag documents (the reference side of
// the "documented alternative representation": `format:<name>` means time.Format/time.Parse
// with that constant, any other text that is not an identifier is used as the layout itself).
var namedLayouts = map[string]string{
	"ANSIC": time.ANSIC, "UnixDate": time.UnixDate, "RubyDate": time.RubyDate, "RFC822": time.RFC822, "RFC822Z": time.RFC822Z,
	"RFC850": time.RFC850, "RFC1123": time.RFC1123, "RFC1123Z": time.RFC1123Z, "RFC3339": time.RFC3339, "RFC3339Nano": time.RFC3339Nano,
	"Kitchen": time.Kitchen, "Stamp": time.Stamp, "StampMilli": time.StampMilli, "StampMicro": time.StampMicro, "StampNano": time.StampNano,
	"DateTime": time.DateTime, "DateOnly": time.DateOnly, "TimeOnly": time.TimeOnly,
}

// tagFormat extracts the format option of a json struct tag ("" if there is none).  The format
// option is always the last one in the tags this monitor writes.
func tagFormat(tag reflect.StructTag) string {
	s := tag.Get("json")
	i := strings.Index(s, ",format:")
	if i < 0 {
		return ""
	}
	return strings.Trim(s[i+len(",format:"):], "'")
}

func fieldFormat(tag reflect.StructTag) fieldFmt {
	f := tagFormat(tag)
	switch {
	case f == "":
	case strings.HasPrefix(f, "unix"):
		return fieldFmt{instantOnly: true}
	case f == "RFC3339Nano":
	default:
		if l, ok := namedLayouts[f]; ok {
			return fieldFmt{layout: l}
		}
		// any text that is not an identifier is itself the layout
		if strings.TrimFunc(f, func(r rune) bool { return r == '_' || unicode.IsLetter(r) || unicode.IsDigit(r) }) != "" {
			return fieldFmt{layout: f}
		}
	}
	return fieldFmt{}
}

// projectTime is what a layout carries of t, computed with the toolchain's time package only:
// the time obtained by parsing the layout's rendering of t.  A layout that carries everything
// (RFC3339Nano) projects t to itself; DateOnly keeps the date, a two-digit year keeps the year
// modulo 100 (mapped into 1969..2068), and so on.
func projectTime(layout string, t time.Time) (time.Time, error) {
	return time.Parse(layout, t.Format(layout))
}

// layoutFixedPoint reports whether the layout's rendering of t is reproduced from the parsed
// time (false e.g. for RFC850 outside 1969..2068: the weekday is written for the full year, the
// year modulo 100 is read back into 1969..2068, for which the weekday is another one).
func layoutFixedPoint(layout string, t time.Time) bool {
	s := t.Format(layout)
	p, err := time.Parse(layout, s)
	return err == nil && p.Format(layout) == s
}

// encodesAsNull reports whether v is written as the JSON null: a nil pointer, a nil interface,
// a nil slice or map when the options say so, or a pointer/interface leading to one of those.
func encodesAsNull(v reflect.Value, c *eqCtx) bool {
	for {
		switch v.Kind() {
		case reflect.Pointer, reflect.Interface:
			if v.IsNil() {
				return true
			}
			v = v.Elem()
		case reflect.Slice, reflect.Map:
			return v.IsNil() && c.nilAsNull
		default:
			return false
		}
	}
}

func emptyLike(v reflect.Value) bool {
	switch v.Kind() {
	case reflect.Slice, reflect.Map:
		return v.IsNil()
	}
	return false
}

// equalRT is the equality of the round-trip property: nil and empty containers are identified;
// a pointer to a value that is written as null is identified with the nil pointer (JSON has one
// null: "a Go pointer is encoded as null if nil", and null decodes to the nil pointer); floats
// are compared by bits, times by instant and zone offset — under a layout that does not carry
// the whole value, by what the layout carries.  It returns nil or the first difference.
func equalRT(a, b reflect.Value, c *eqCtx, ff fieldFmt, path string) *diff {
	if a.Type() != b.Type() {
		return &diff{path, fmt.Sprintf("type %v vs %v", a.Type(), b.Type()), "dynamic-type"}
	}
	switch a.Kind() {
	case reflect.Pointer:
		na, nb := encodesAsNull(a, c), encodesAsNull(b, c)
		if na || nb {
			if na != nb {
				return &diff{path, fmt.Sprintf("null-encoded pointer vs not (%v, %v)", na, nb), "pointer-nilness"}
			}
			return nil
		}
		return equalRT(a.Elem(), b.Elem(), c, ff, path+"*")
	case reflect.Bool:
		if a.Bool() != b.Bool() {
			return &diff{path, fmt.Sprintf("%v vs %v", a.Bool(), b.Bool()), "bool"}
		}
	case reflect.Int, reflect.Int8, reflect.Int16, reflect.Int32, reflect.Int64:
		if a.Int() != b.Int() {
			cause := "signed-integer"
			if a.Type() == tDuration {
				cause = "duration"
			}
			return &diff{path, fmt.Sprintf("%d vs %d", a.Int(), b.Int()), cause}
		}
	case reflect.Uint, reflect.Uint8, reflect.Uint16, reflect.Uint32, reflect.Uint64, reflect.Uintptr:
		if a.Uint() != b.Uint() {
			return &diff{path, fmt.Sprintf("%d vs %d", a.Uint(), b.Uint()), "unsigned-integer"}
		}
	case reflect.Float32, reflect.Float64:
		if math.Float64bits(a.Float()) != math.Float64bits(b.Float()) {
			cause := a.Kind().String() + "-bits"
			if a.Float() == 0 && b.Float() == 0 {
				cause = "zero-sign"
			}
			return &diff{path, fmt.Sprintf("%v (%#x) vs %v (%#x)", a.Float(), math.Float64bits(a.Float()), b.Float(), math.Float64bits(b.Float())), cause}
		}
	case reflect.String:
		if a.String() != b.String() {
			return &diff{path, fmt.Sprintf("%q vs %q", a.String(), b.String()), "string"}
		}
	case reflect.Slice, reflect.Array:
		if a.Len() != b.Len() {
			cause := "length"
			if isByteSeq(a.Type()) {
				cause = "bytes-length"
			}
			return &diff{path, fmt.Sprintf("length %d vs %d", a.Len(), b.Len()), cause}
		}
		for i := 0; i < a.Len(); i++ {
			if d := equalRT(a.Index(i), b.Index(i), c, fieldFmt{}, fmt.Sprintf("%s[%d]", path, i)); d != nil {
				if isByteSeq(a.Type()) {
					d.cause = "bytes-content"
				}
				return d
			}
		}
	case reflect.Map:
		if a.Len() != b.Len() {
			return &diff{path, fmt.Sprintf("map size %d vs %d", a.Len(), b.Len()), "map-size"}
		}
		it := a.MapRange()
		for it.Next() {
			bv := b.MapIndex(it.Key())
			if !bv.IsValid() {
				return &diff{path, fmt.Sprintf("key %v missing", it.Key()), "map-key-" + it.Key().Kind().String()}
			}
			if d := equalRT(it.Value(), bv, c, fieldFmt{}, fmt.Sprintf("%s[%v]", path, it.Key())); d != nil {
				return d
			}
			// float keys: +0 and -0 are one key; the stored key keeps its sign
			if k := it.Key(); k.Kind() == reflect.Float32 || k.Kind() == reflect.Float64 {
				if k.Float() == 0 {
					kb := findZeroKey(b)
					if kb.IsValid() && math.Signbit(kb.Float()) != math.Signbit(k.Float()) {
						return &diff{path, "zero key sign differs", "zero-sign-map-key"}
					}
				}
			}
		}
	case reflect.Interface:
		an, bn := a.IsNil(), b.IsNil()
		switch {
		case an && bn:
			return nil
		case an != bn:
			other := a
			if an {
				other = b
			}
			if c.nilAsNull && emptyLike(other.Elem()) {
				return nil
			}
			return &diff{path, fmt.Sprintf("nil interface vs %v", other.Elem().Type()), "interface-nilness"}
		}
		if c.nilAsNull && emptyLike(a.Elem()) && emptyLike(b.Elem()) {
			return nil
		}
		return equalRT(a.Elem(), b.Elem(), c, fieldFmt{}, path+".(any)")
	case reflect.Struct:
		if a.Type() == tTime {
			ta, tb := a.Interface().(time.Time), b.Interface().(time.Time)
			cause := "time"
			if ff.layout != "" {
				// the layout does not carry everything: compare with what it carries
				p, err := projectTime(ff.layout, ta)
				if err != nil {
					return &diff{path, fmt.Sprintf("harness: reference cannot parse its own rendering of %v under layout %q: %v", ta, ff.layout, err), "harness"}
				}
				ta, cause = p, "time-under-layout"
			}
			_, oa := ta.Zone()
			_, ob := tb.Zone()
			if !ta.Equal(tb) || (oa != ob && !ff.instantOnly) {
				return &diff{path, fmt.Sprintf("time %v vs %v", ta.Format(time.RFC3339Nano), tb.Format(time.RFC3339Nano)), cause}
			}
			return nil
		}
		for i := 0; i < a.NumField(); i++ {
			f := a.Type().Field(i)
			if d := equalRT(a.Field(i), b.Field(i), c, fieldFormat(f.Tag), path+"."+f.Name); d != nil {
				return d
			}
		}
	default:
		return &diff{path, fmt.Sprintf("unexpected kind %v", a.Kind()), "harness"}
	}
	return nil
}

func findZeroKey(m reflect.Value) reflect.Value {
	it := m.MapRange()
	for it.Next() {
		if it.Key().Float() == 0 {
			return it.Key()
		}
	}
	return reflect.Value{}
}

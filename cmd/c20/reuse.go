package main

// Reuse of a caller-held Encoder/Decoder after a MarshalEncode/UnmarshalDecode call that
// failed (or succeeded) part-way through an object.  Nothing in the documentation forbids
// it (write errors are explicitly "not fatal"), so every follow-up call must return — with
// whatever result — and must not panic.
//
// Finding F15 (repaired in /repo by 36e26c1 and 03b1a8a): when the call was given a per-call
// AllowDuplicateNames that differs from the coder's own setting and failed inside an object,
// the name/namespace stacks were left out of step with the token stack and later calls
// panicked with index errors.  Those cases carry history=reuse-after-failed-percall-dupnames;
// every other case carries history=reuse-after-failed-call / reuse-after-successful-call.
// All of them must be silent.

import (
	"bytes"
	"errors"
	"fmt"
	"io"
	"math"
	"strings"

	json "github.com/go-json-experiment/json"
	"github.com/go-json-experiment/json/jsontext"
	v1 "github.com/go-json-experiment/json/v1"

	"verif/run"
)

type reuseArgs struct {
	Side     string `json:"side"`      // encoder | decoder
	CoderDup string `json:"coder_dup"` // unset | true | false   (the coder's own AllowDuplicateNames)
	CallDup  string `json:"call_dup"`  // none | true | false | v1 | v2 (per-call option; v1/v2 = DefaultOptionsV1/V2)
	Extra    string `json:"extra"`     // none | other (an unrelated per-call option is passed as well)
	Value    string `json:"value"`     // shape of the value / target
	Fail     string `json:"fail"`      // how the call fails (or "none")
	Cont     int    `json:"cont"`      // which continuation script follows
	Pre      int    `json:"pre"`       // container levels opened by tokens before the call
}

func defaultV1() json.Options { return v1.DefaultOptionsV1() }
func nanValue() any          { return math.NaN() }

func dupOf(s string) (set, val bool) {
	switch s {
	case "true", "v1":
		return true, true
	case "false", "v2":
		return true, false
	}
	return false, false
}

func (a *reuseArgs) history(failed bool) string {
	_, coder := dupOf(a.CoderDup)
	set, call := dupOf(a.CallDup)
	switch {
	case !failed:
		return "reuse-after-successful-call"
	case set && call != coder:
		return "reuse-after-failed-percall-dupnames"
	}
	return "reuse-after-failed-call"
}

func (a *reuseArgs) callOpts(fail string) []json.Options {
	var o []json.Options
	if a.Extra == "other" {
		o = append(o, json.Deterministic(true), jsontext.EscapeForHTML(true))
	}
	switch a.CallDup {
	case "true":
		o = append(o, jsontext.AllowDuplicateNames(true))
	case "false":
		o = append(o, jsontext.AllowDuplicateNames(false))
	case "v1":
		o = append(o, defaultV1())
	case "v2":
		o = append(o, json.DefaultOptionsV2())
	}
	switch fail {
	case "user-error":
		o = append(o, json.WithMarshalers(json.MarshalFunc(func(failing) ([]byte, error) { return nil, errors.New("user marshal error") })),
			json.WithUnmarshalers(json.UnmarshalFunc(func([]byte, *failing) error { return errors.New("user unmarshal error") })))
	case "user-error-to":
		o = append(o, json.WithMarshalers(json.MarshalToFunc(func(e *jsontext.Encoder, f failing) error {
			e.WriteToken(jsontext.BeginArray)
			e.WriteToken(jsontext.BeginObject)
			e.WriteToken(jsontext.String("in"))
			return errors.New("user marshal error after partial output")
		})), json.WithUnmarshalers(json.UnmarshalFromFunc(func(d *jsontext.Decoder, f *failing) error {
			d.ReadToken()
			d.ReadToken()
			return errors.New("user unmarshal error after partial input")
		})))
	}
	return o
}

func (a *reuseArgs) coderOpts() []jsontext.Options {
	switch a.CoderDup {
	case "true":
		return []jsontext.Options{jsontext.AllowDuplicateNames(true)}
	case "false":
		return []jsontext.Options{jsontext.AllowDuplicateNames(false)}
	}
	return nil
}

type failing struct{ X int }

var reuseValues = []string{"struct", "struct-late", "map", "map-nested", "any-map", "slice-of-struct", "struct-inline", "ptr-struct"}
var reuseEncFails = []string{"none", "unsupported", "user-error", "user-error-to", "write-fault", "nan", "dup-name"}
var reuseDecFails = []string{"none", "type-mismatch", "user-error", "user-error-to", "syntax", "truncated", "dup-name", "read-fault", "unknown-member"}

// encValue returns a value of the given shape in which the failing element sits inside an object.
func encValue(shape, fail string) any {
	var bad any
	switch fail {
	case "none", "write-fault":
		bad = "fine"
	case "unsupported":
		bad = make(chan int)
	case "user-error", "user-error-to":
		bad = failing{1}
	case "nan":
		bad = nanValue()
	case "dup-name":
		// a raw value with duplicate names: accepted or rejected depending on the flag in force
		bad = jsontext.Value(`{"d":1,"d":2}`)
	}
	long := strings.Repeat("x", 300)
	switch shape {
	case "struct":
		return struct {
			A   string
			Bad any
			Z   int
		}{long, bad, 1}
	case "struct-late":
		return struct {
			A   map[string]int
			B   []any
			Bad any
		}{map[string]int{"k": 1}, []any{1.0, map[string]any{"q": nil}}, bad}
	case "map":
		return map[string]any{"bad": bad}
	case "map-nested":
		return map[string]any{"a": map[string]any{"b": map[string]any{"bad": bad, "long": long}}}
	case "any-map":
		var v any = map[string]any{"bad": bad, "x": []any{}}
		return &v
	case "slice-of-struct":
		return []struct{ Bad any }{{"ok"}, {bad}}
	case "struct-inline":
		return struct {
			A   int
			Inl map[string]any `json:",embed"`
		}{1, map[string]any{"bad": bad}}
	case "ptr-struct":
		return &struct {
			P *struct{ Bad any }
		}{&struct{ Bad any }{bad}}
	}
	return nil
}

// decInput returns the input text and target for the given shape, failing inside an object.
func decInput(shape, fail string) (string, any) {
	badv := map[string]string{"none": `1`, "type-mismatch": `"str"`, "user-error": `{"X":1}`, "user-error-to": `[{"in":1}]`, "syntax": `tru]`, "truncated": ``,
		"dup-name": `1,"Bad":2`, "read-fault": `1`, "unknown-member": `1,"nope":{"x":[1]}`}[fail]
	type tBad struct {
		A   string
		Bad int
		Z   any
	}
	type tBadF struct {
		A   string
		Bad failing
		Z   any
	}
	useF := fail == "user-error" || fail == "user-error-to"
	tail := `,"Z":{"after":[1,{"k":"v"}],"after2":null}}`
	if fail == "truncated" {
		tail = ``
	}
	switch shape {
	case "struct", "struct-late", "struct-inline", "ptr-struct":
		in := `{"A":"a","Bad":` + badv + tail
		if useF {
			return in, new(tBadF)
		}
		return in, new(tBad)
	case "map":
		in := `{"A":2,"Bad":` + badv + tail
		if useF {
			return in, new(map[string]failing)
		}
		return in, new(map[string]int)
	case "map-nested":
		in := `{"o":{"A":2,"Bad":` + badv + tail + `,"more":{"x":1}}`
		if fail == "truncated" {
			in = `{"o":{"A":2,"Bad":`
		}
		if useF {
			return in, new(map[string]map[string]failing)
		}
		return in, new(map[string]map[string]int)
	case "any-map":
		in := `{"A":2,"Bad":` + badv + tail
		if useF {
			return in, new(map[string]any) // the function is keyed on *failing: never called, the call succeeds
		}
		return in, new(any)
	case "slice-of-struct":
		in := `[{"Bad":0},{"A":"a","Bad":` + badv + tail + `,{"Bad":3}]`
		if fail == "truncated" {
			in = `[{"Bad":0},{"A":"a","Bad":`
		}
		if useF {
			return in, new([]tBadF)
		}
		return in, new([]tBad)
	}
	return "", nil
}

type faultReader struct {
	b    []byte
	at   int // fail once after this many bytes
	done bool
}

func (f *faultReader) Read(p []byte) (int, error) {
	if !f.done && f.at <= 0 {
		f.done = true
		return 0, errors.New("read fault")
	}
	if len(f.b) == 0 {
		return 0, io.EOF
	}
	n := min(len(p), len(f.b), 7)
	if !f.done {
		n = min(n, f.at)
	}
	copy(p, f.b[:n])
	f.b = f.b[n:]
	f.at -= n
	return n, nil
}

func shortFunc(fn string) string {
	if i := strings.LastIndexByte(fn, '/'); i >= 0 {
		fn = fn[i+1:]
	}
	if i := strings.IndexByte(fn, '.'); i >= 0 {
		fn = fn[i+1:] // drop the package name
	}
	return strings.NewReplacer("(*", "", ")", "", "(", "").Replace(fn)
}

// guardLib runs fn; a panic raised inside the library is recorded as a violation with a
// normalized signature (no raw panic text: indexes vary) and reported as true.  Other
// panics propagate to the framework (harness malfunction).
func guardLib(w *run.W, history, side string, fn func()) (panicked bool) {
	defer func() {
		if r := recover(); r != nil {
			if _, ok := r.(run.UserPanic); ok {
				panic(r)
			}
			origin, lib, stack := run.PanicOrigin()
			if !lib {
				panic(r)
			}
			panicked = true
			w.Violate("library-panic", map[string]string{"history": history, "side": side, "func": shortFunc(origin)},
				"library panicked: %v\n%s", r, run.Trunc(stack, 2500))
		}
	}()
	fn()
	return false
}

func runReuse(w *run.W, a *reuseArgs) {
	hist := a.history(a.Fail != "none")
	w.Eval(1)
	w.Shape(fmt.Sprintf("reuse|%s|%s|%s|%s|%s|%s|%d|%d", a.Side, a.CoderDup, a.CallDup, a.Extra, a.Value, a.Fail, a.Cont, a.Pre))
	w.Count("reuse_cases", 1)
	calls := int64(0)
	step := func(fn func()) bool {
		calls++
		return guardLib(w, hist, a.Side, fn)
	}
	switch a.Side {
	case "encoder":
		var buf bytes.Buffer
		var wr io.Writer = &buf
		if a.Fail == "write-fault" {
			wr = &failWriter{n: 3 + 40*a.Cont, err: errors.New("write fault")}
		}
		e := jsontext.NewEncoder(wr, a.coderOpts()...)
		for i := 0; i < a.Pre; i++ {
			if i%2 == 0 {
				e.WriteToken(jsontext.BeginObject)
				e.WriteToken(jsontext.String(fmt.Sprint("p", i)))
			} else {
				e.WriteToken(jsontext.BeginArray)
			}
		}
		v := encValue(a.Value, a.Fail)
		if v == nil {
			w.Broken("reuse: unknown value shape %q", a.Value)
			return
		}
		var err error
		if step(func() { err = json.MarshalEncode(e, v, a.callOpts(a.Fail)...) }) {
			return
		}
		if (err != nil) != (a.Fail != "none") {
			w.Count("reuse_call_outcome_other_than_planned", 1) // e.g. dup-name under a lax flag: fine, still exercised
		}
		if err != nil {
			w.Count("reuse_failed_calls", 1)
		}
		hist = a.history(err != nil)
		w.Count("reuse_"+strings.ReplaceAll(hist, "-", "_"), 1)
		conts := [][]func(){
			{func() { e.WriteToken(jsontext.Null) }, func() { e.WriteToken(jsontext.EndObject) }, func() { e.WriteToken(jsontext.EndObject) }, func() { _ = e.StackPointer() }},
			{func() { e.WriteToken(jsontext.String("n")) }, func() { e.WriteToken(jsontext.String("v")) }, func() { _ = e.StackPointer() }, func() { e.WriteToken(jsontext.EndObject) },
				func() { e.WriteToken(jsontext.EndArray) }, func() { e.WriteToken(jsontext.EndObject) }},
			{func() { _ = e.StackPointer() }, func() { e.WriteValue(jsontext.Value(`{"a":1,"a":2}`)) }, func() { e.WriteValue(jsontext.Value(`"n"`)) }, func() { e.WriteValue(jsontext.Value(`[1]`)) },
				func() { e.WriteToken(jsontext.EndObject) }, func() { _ = e.StackPointer() }},
			{func() { e.WriteToken(jsontext.Int(1)) }, func() { e.WriteToken(jsontext.BeginObject) }, func() { e.WriteToken(jsontext.String("n")) }, func() { e.WriteToken(jsontext.EndObject) },
				func() { e.WriteToken(jsontext.EndObject) }, func() { e.WriteToken(jsontext.EndObject) }, func() { e.WriteToken(jsontext.EndArray) }},
			{func() { json.MarshalEncode(e, map[string]any{"again": 1.0}) }, func() { json.MarshalEncode(e, "name", a.callOpts("none")...) }, func() { json.MarshalEncode(e, encValue(a.Value, "none")) },
				func() { e.WriteToken(jsontext.EndObject) }, func() { _ = e.StackPointer() }},
		}
		for _, c := range conts[a.Cont%len(conts)] {
			if step(c) {
				break
			}
			if step(func() {
				for i := 0; i <= e.StackDepth(); i++ {
					e.StackIndex(i)
				}
				_ = e.OutputOffset()
				_ = e.Options()
			}) {
				break
			}
		}
	case "decoder":
		in, tgt := decInput(a.Value, a.Fail)
		if tgt == nil {
			w.Broken("reuse: unknown target shape %q", a.Value)
			return
		}
		prefix := ""
		for i := 0; i < a.Pre; i++ {
			if i%2 == 0 {
				prefix += fmt.Sprintf(`{"p%d":`, i)
			} else {
				prefix += `[`
			}
		}
		full := prefix + in
		for i := a.Pre - 1; i >= 0 && a.Fail != "truncated"; i-- {
			if i%2 == 0 {
				full += `,"q":[2]}`
			} else {
				full += `,{"r":3}]`
			}
		}
		var rd io.Reader = strings.NewReader(full)
		if a.Fail == "read-fault" {
			rd = &faultReader{b: []byte(full), at: len(prefix) + strings.Index(in, `"Bad"`) + 3}
		}
		d := jsontext.NewDecoder(rd, a.coderOpts()...)
		for i := 0; i < a.Pre; i++ {
			d.ReadToken()
			if i%2 == 0 {
				d.ReadToken()
			}
		}
		opts := a.callOpts(a.Fail)
		if a.Fail == "unknown-member" {
			opts = append(opts, json.RejectUnknownMembers(true))
		}
		var err error
		if step(func() { err = json.UnmarshalDecode(d, tgt, opts...) }) {
			return
		}
		if (err != nil) != (a.Fail != "none") {
			w.Count("reuse_call_outcome_other_than_planned", 1)
		}
		if err != nil {
			w.Count("reuse_failed_calls", 1)
		}
		hist = a.history(err != nil)
		w.Count("reuse_"+strings.ReplaceAll(hist, "-", "_"), 1)
		var x any
		conts := [][]func(){
			{func() { d.ReadValue() }, func() { d.ReadValue() }, func() { d.ReadValue() }, func() { _ = d.StackPointer() }, func() { d.ReadToken() }, func() { d.ReadToken() }},
			{func() { d.ReadToken() }, func() { d.ReadToken() }, func() { _ = d.StackPointer() }, func() { d.SkipValue() }, func() { d.ReadToken() }, func() { d.ReadToken() }, func() { d.ReadToken() }},
			{func() { _ = d.PeekKind() }, func() { d.SkipValue() }, func() { d.SkipValue() }, func() { _ = d.StackPointer() }, func() { d.ReadValue() }, func() { d.ReadToken() }},
			{func() { json.UnmarshalDecode(d, &x) }, func() { json.UnmarshalDecode(d, &x, a.callOpts("none")...) }, func() { d.ReadToken() }, func() { _ = d.StackPointer() }, func() { d.ReadValue() }},
			{func() { _ = d.StackPointer() }, func() { d.ReadToken() }, func() { d.ReadValue() }, func() { d.ReadToken() }, func() { d.ReadValue() }, func() { d.ReadToken() }, func() { d.ReadValue() },
				func() { d.ReadToken() }, func() { d.ReadToken() }, func() { d.ReadToken() }},
		}
		for _, c := range conts[a.Cont%len(conts)] {
			if step(c) {
				break
			}
			if step(func() {
				for i := 0; i <= d.StackDepth(); i++ {
					d.StackIndex(i)
				}
				_ = d.InputOffset()
				_ = d.UnreadBuffer()
			}) {
				break
			}
		}
	default:
		w.Broken("reuse: unknown side %q", a.Side)
	}
	w.Count("reuse_calls_on_reused_coder", calls)
}

package main

// Error values are part of the API: formatting one (Error(), %v, %+v, log) must not panic either.
// The message of a SyntacticError / SemanticError embeds the JSON Pointer of the failing value,
// shortened around the middle when it is long; the cut points depend on where the '/' separators
// and the rune boundaries of the NAMES on the path fall.  Here errors are provoked below paths of
// hostile names (empty, long, multi-byte so that a cut falls inside a rune, '/' and '~' that get
// escaped, ill-formed UTF-8, digits) and every error obtained is formatted and taken apart.

import (
	"bytes"
	"errors"
	"fmt"
	"math/rand/v2"
	"reflect"
	"strconv"
	"strings"
	"unicode/utf8"

	"github.com/go-json-experiment/json"
	"github.com/go-json-experiment/json/jsontext"
	v1 "github.com/go-json-experiment/json/v1"

	"verif/run"
)

type errtextArgs struct {
	Names []string `json:"names"` // path of member names, outermost first (raw Go strings)
	Index []int    `json:"index"` // per level: >= 0 wraps the level's object into an array at that index
	Fault string   `json:"fault"` // what fails at the end of the path
}

func hostileName(r *rand.Rand) string {
	rep := func(s string, lo, hi int) string { return strings.Repeat(s, lo+r.IntN(hi-lo+1)) }
	switch r.IntN(14) {
	case 0, 1:
		return ""
	case 2:
		return rep("a", 40, 130)
	case 3:
		return rep("é", 20, 70)
	case 4:
		return rep("😀", 10, 40)
	case 5:
		return rep("a", 0, 3) + rep("世", 15, 40) + rep("b", 0, 3)
	case 6:
		return rep("a/", 10, 60)
	case 7:
		return rep("~", 1, 60)
	case 8:
		return rep("x", 45, 55) + "/" + rep("y", 0, 3)
	case 9:
		return rep("\xff", 1, 60)
	case 10:
		return rep("a", 44, 52) + "\xe4\xb8" + rep("b", 44, 52)
	case 11:
		return strconv.Itoa(r.IntN(100))
	case 12:
		return rep("a", 47, 53)
	}
	return []string{"a", "k", "name", "0", "-", "~0", "~1", "/"}[r.IntN(8)]
}

var errtextFaults = []string{"syntax", "dup", "kind", "range", "invalid-utf8-text", "truncated", "marshal-chan", "marshal-utf8", "marshal-nan", "marshal-dup-raw", "tokens", "encoder-tokens"}

func quoteName(s string) string {
	b, _ := jsontext.AppendQuote(nil, s)
	if b == nil {
		// ill-formed UTF-8: spell the bytes raw between quotes (no '"', '\\' or control bytes in the pool)
		return `"` + s + `"`
	}
	return string(b)
}

// useError formats err and every error it wraps and takes the typed ones apart.
func useError(w *run.W, err error) {
	if err == nil {
		return
	}
	w.Count("errtext_errors_formatted", 1)
	for e, n := err, 0; e != nil && n < 8; e, n = errors.Unwrap(e), n+1 {
		msg := e.Error()
		_ = fmt.Sprintf("%v|%+v|%q|%s", e, e, e, e)
		if strings.Contains(msg, "…") || strings.Contains(msg, "...") {
			w.Count("errtext_messages_with_shortened_pointer", 1)
		}
		if len(msg) > 2000 {
			w.Count("errtext_long_messages", 1)
		}
	}
	var syn *jsontext.SyntacticError
	if errors.As(err, &syn) {
		usePointer(syn.JSONPointer)
		if len(syn.JSONPointer) > 100 {
			w.Count("errtext_pointer_over_100_bytes", 1)
		}
		if strings.HasSuffix(string(syn.JSONPointer), "/") {
			w.Count("errtext_pointer_ends_in_slash", 1)
		}
		if !utf8.ValidString(string(syn.JSONPointer)) {
			w.Count("errtext_pointer_illformed", 1)
		}
	}
	var sem *json.SemanticError
	if errors.As(err, &sem) {
		usePointer(sem.JSONPointer)
		if len(sem.JSONPointer) > 100 {
			w.Count("errtext_pointer_over_100_bytes", 1)
		}
		if strings.HasSuffix(string(sem.JSONPointer), "/") {
			w.Count("errtext_pointer_ends_in_slash", 1)
		}
		if !utf8.ValidString(string(sem.JSONPointer)) {
			w.Count("errtext_pointer_illformed", 1)
		}
	}
}

func runErrtext(w *run.W, a *errtextArgs) {
	w.Eval(1)
	w.Count("errtext_cases", 1)
	w.Shape(fmt.Sprintf("errtext|%s|%d|%v", a.Fault, len(a.Names), func() (ks []int) {
		for _, n := range a.Names {
			ks = append(ks, min(len(n), 101)/10)
		}
		return
	}()))
	// text: {"n0": [.., {"n1": ... <leaf> }]}
	leaf := map[string]string{"syntax": `tru`, "dup": `{"d":1,"d":2}`, "kind": `"str"`, "range": `1e999`, "invalid-utf8-text": "\"\xff\"", "truncated": `[1,`, "tokens": `nul`}[a.Fault]
	var sb strings.Builder
	closers := ""
	for i, n := range a.Names {
		if a.Index[i] >= 0 {
			sb.WriteString("[" + strings.Repeat("0,", a.Index[i]))
			closers = "]" + closers
		}
		sb.WriteString("{" + quoteName(n) + ":")
		closers = "}" + closers
	}
	text := sb.String() + leaf + closers
	if a.Fault == "truncated" {
		text = sb.String() + leaf
	}
	inv := jsontext.AllowInvalidUTF8(true)
	do := func(side string, fn func() error) {
		var err error
		guardLib(w, "error-formatting", side, func() {
			err = fn()
			useError(w, err)
		})
	}
	switch a.Fault {
	case "syntax", "dup", "invalid-utf8-text", "truncated":
		for _, o := range [][]json.Options{nil, {inv}} {
			do("Unmarshal", func() error { var v any; return json.Unmarshal([]byte(text), &v, o...) })
			do("UnmarshalRead", func() error { var v any; return json.UnmarshalRead(&oneByteReader{[]byte(text)}, &v, o...) })
			do("Value.IsValid/Format", func() error { v := jsontext.Value(bytes.Clone([]byte(text))); return v.Format(o...) })
		}
		do("v1.Unmarshal", func() error { var v any; return v1.Unmarshal([]byte(text), &v) })
	case "tokens":
		for _, o := range [][]jsontext.Options{nil, {inv}} {
			do("Decoder", func() error {
				d := jsontext.NewDecoder(strings.NewReader(text), o...)
				for i := 0; i < len(text)+2; i++ {
					if _, err := d.ReadToken(); err != nil {
						usePointer(d.StackPointer())
						return err
					}
					usePointer(d.StackPointer())
				}
				return nil
			})
		}
	case "kind", "range":
		// a typed target mirroring the path whose leaf cannot take the value
		lt := reflect.TypeFor[int]()
		if a.Fault == "range" {
			lt = reflect.TypeFor[float32]()
		}
		t := lt
		for i := len(a.Names) - 1; i >= 0; i-- {
			t = reflect.MapOf(reflect.TypeFor[string](), t)
			if a.Index[i] >= 0 {
				t = reflect.SliceOf(t)
			}
		}
		for _, o := range [][]json.Options{nil, {inv}, {inv, v1.ReportErrorsWithLegacySemantics(true)}} {
			do("Unmarshal/typed", func() error { return json.Unmarshal([]byte(text), reflect.New(t).Interface(), o...) })
		}
		do("v1.Unmarshal/typed", func() error { return v1.Unmarshal([]byte(text), reflect.New(t).Interface()) })
	case "marshal-chan", "marshal-utf8", "marshal-nan", "marshal-dup-raw":
		var v any = map[string]any{"marshal-chan": make(chan int), "marshal-utf8": "\xff", "marshal-nan": nanValue(), "marshal-dup-raw": jsontext.Value(`{"d":1,"d":2}`)}[a.Fault]
		for i := len(a.Names) - 1; i >= 0; i-- {
			v = map[string]any{a.Names[i]: v}
			if a.Index[i] >= 0 {
				s := make([]any, a.Index[i]+1)
				s[a.Index[i]] = v
				v = s
			}
		}
		for _, o := range [][]json.Options{nil, {inv}, {inv, json.Deterministic(true)}, {inv, v1.ReportErrorsWithLegacySemantics(true)}} {
			if a.Fault == "marshal-utf8" && o != nil {
				continue // (no error then)
			}
			do("Marshal", func() error { _, err := json.Marshal(v, o...); return err })
			do("MarshalWrite", func() error { return json.MarshalWrite(new(bytes.Buffer), v, o...) })
		}
		do("v1.Marshal", func() error { _, err := v1.Marshal(v); return err })
	case "encoder-tokens":
		for _, o := range [][]jsontext.Options{nil, {inv}} {
			do("Encoder", func() error {
				e := jsontext.NewEncoder(new(bytes.Buffer), o...)
				for i, n := range a.Names {
					if a.Index[i] >= 0 {
						if err := e.WriteToken(jsontext.BeginArray); err != nil {
							return err
						}
					}
					if err := e.WriteToken(jsontext.BeginObject); err != nil {
						return err
					}
					if err := e.WriteToken(jsontext.String(n)); err != nil {
						usePointer(e.StackPointer())
						return err
					}
					usePointer(e.StackPointer())
				}
				err := e.WriteToken(jsontext.Float(nanValue().(float64)))
				usePointer(e.StackPointer())
				if err == nil {
					err = e.WriteValue(jsontext.Value(`{"d":1,"d":2}`))
				}
				return err
			})
		}
	default:
		w.Broken("errtext: unknown fault %q", a.Fault)
	}
}

func genErrtext(w *run.W, mine func() bool) {
	n := w.Pick(4000, 60000)
	for c := 0; c < n; c++ {
		if !mine() {
			continue
		}
		r := w.Rand("errtext", c)
		a := &errtextArgs{Fault: errtextFaults[r.IntN(len(errtextFaults))]}
		for k := 1 + r.IntN(5); k > 0; k-- {
			a.Names = append(a.Names, hostileName(r))
			ix := -1
			if r.IntN(4) == 0 {
				ix = r.IntN(3)
			}
			a.Index = append(a.Index, ix)
		}
		if r.IntN(3) == 0 {
			a.Names[len(a.Names)-1] = "" // the pointer ends in "/"
		}
		w.Do("errtext", a)
	}
}

package main

// Bounded progress with hostile user code: unmarshal methods and functions that fail before,
// in the middle of, or after reading their value (or read nothing and report success), placed in
// slices, arrays, maps, struct fields and behind pointers, under the default options, the v1
// options and the legacy error semantics alone ("evaluation continues" after an error).  The
// call must return, and the user code must have been invoked at most once per JSON value of
// the input: a library that re-offers the same unread value to user code again and again grows
// the target without bound (restated liveness: bounded progress, counted in user-code calls).

import (
	"errors"
	"fmt"
	"strings"
	"sync/atomic"

	json "github.com/go-json-experiment/json"
	"github.com/go-json-experiment/json/jsontext"
	jsonv1 "github.com/go-json-experiment/json/v1"

	"verif/run"
)

var progressCalls atomic.Int64
var progressMode atomic.Value // string

const progressCap = 5000 // far above any legitimate count; the methods turn benign beyond it so that a defect shows as a count, not as a hang

type hostileFrom struct{ N int }

func hostileBehave(d *jsontext.Decoder) error {
	n := progressCalls.Add(1)
	if n > progressCap {
		return d.SkipValue()
	}
	switch progressMode.Load().(string) {
	case "err-before":
		return errors.New("hostile: refuses before reading")
	case "err-before-peek":
		d.PeekKind()
		return errors.New("hostile: refuses after peeking")
	case "err-mid":
		if k := d.PeekKind(); k == '{' || k == '[' {
			d.ReadToken()
			return errors.New("hostile: fails inside its value")
		}
		d.ReadToken()
		return errors.New("hostile: fails after a scalar")
	case "err-after":
		d.SkipValue()
		return errors.New("hostile: fails after reading its value")
	case "ok-nothing":
		return nil
	case "unsupported":
		return errors.ErrUnsupported
	case "unsupported-after":
		d.SkipValue()
		return errors.ErrUnsupported
	}
	return d.SkipValue()
}

func (h *hostileFrom) UnmarshalJSONFrom(d *jsontext.Decoder) error { return hostileBehave(d) }

type hostileBytes struct{ N int }

func (h *hostileBytes) UnmarshalJSON(b []byte) error {
	if progressCalls.Add(1) > progressCap {
		return nil
	}
	if m := progressMode.Load().(string); strings.HasPrefix(m, "err") {
		return errors.New("hostile: UnmarshalJSON refuses")
	}
	return nil
}

type hostileText struct{ N int }

func (h *hostileText) UnmarshalText(b []byte) error {
	if progressCalls.Add(1) > progressCap {
		return nil
	}
	if m := progressMode.Load().(string); strings.HasPrefix(m, "err") {
		return errors.New("hostile: UnmarshalText refuses")
	}
	return nil
}

type plainElem struct{ N int }

type progressArgs struct {
	Mode   string `json:"mode"`
	Target string `json:"target"`
	Opts   string `json:"opts"`
	Input  string `json:"input"`
	Via    string `json:"via"` // method | func
}

var progressTargets = map[string]func() any{
	"slice-from": func() any { return new([]hostileFrom) },
	"slice-ptr":  func() any { return new([]*hostileFrom) },
	"array-from": func() any { return new([3]hostileFrom) },
	"map-from":   func() any { return new(map[string]hostileFrom) },
	"field-from": func() any {
		return new(struct {
			A, B hostileFrom
			C    []hostileFrom
		})
	},
	"slice-bytes":  func() any { return new([]hostileBytes) },
	"slice-text":   func() any { return new([]hostileText) },
	"mapkey-text":  func() any { return new(map[hostileText]int) },
	"any-slice":    func() any { return new([]any) },
	"nested-slice": func() any { return new([][]hostileFrom) },
	"slice-plain":  func() any { return new([]plainElem) }, // with via=func: a caller function on *plainElem
}

func countValues(in string) int64 {
	// an upper bound of the JSON values (and names) in the input: one per token start
	n := int64(1)
	for _, c := range in {
		switch c {
		case ',', ':', '[', '{':
			n++
		}
	}
	return n
}

func runProgress(w *run.W, a *progressArgs) {
	w.Eval(1)
	mk := progressTargets[a.Target]
	if mk == nil {
		w.Broken("progress: unknown target %q", a.Target)
		return
	}
	var opts []json.Options
	switch a.Opts {
	case "v1":
		opts = append(opts, jsonv1.DefaultOptionsV1())
	case "legacy-errors":
		opts = append(opts, jsonv1.ReportErrorsWithLegacySemantics(true))
	case "legacy-errors+merge":
		opts = append(opts, jsonv1.ReportErrorsWithLegacySemantics(true), jsonv1.MergeWithLegacySemantics(true), jsontext.AllowDuplicateNames(true))
	}
	if a.Via == "func" {
		opts = append(opts, json.WithUnmarshalers(json.JoinUnmarshalers(
			json.UnmarshalFromFunc(func(d *jsontext.Decoder, v *plainElem) error { return hostileBehave(d) }),
			json.UnmarshalFromFunc(func(d *jsontext.Decoder, v *hostileFrom) error { return hostileBehave(d) }))))
	}
	progressMode.Store(a.Mode)
	progressCalls.Store(0)
	tgt := mk()
	var err error
	if guardLib(w, "hostile-unmarshal-code", "unmarshal", func() { err = json.Unmarshal([]byte(a.Input), tgt, opts...) }) {
		return
	}
	calls := progressCalls.Load()
	// a caller function that declines (ErrUnsupported) is followed by the type's own method: at most
	// two invocations per value, plus slack; a runaway loop reaches progressCap (5000)
	bound := 2*countValues(a.Input) + 4
	sig := map[string]string{"mode": a.Mode, "opts": a.Opts, "via": a.Via}
	if calls > bound {
		w.Violate("unbounded-progress", sig, "Unmarshal(%s) into %T with user code that %s (options %s, %s): the user code was invoked %d times for an input with at most %d values (err=%v)",
			a.Input, tgt, a.Mode, a.Opts, a.Via, calls, bound, err)
	}
	w.Count("progress_cases", 1)
	w.Count("progress_user_calls", calls)
	w.Shape(fmt.Sprintf("progress|%s|%s|%s|%s", a.Mode, a.Target, a.Opts, a.Via))
}

func genProgress(w *run.W, mine func() bool) {
	modes := []string{"err-before", "err-before-peek", "err-mid", "err-after", "ok-nothing", "unsupported", "unsupported-after", "ok"}
	targets := []string{"any-slice", "array-from", "field-from", "map-from", "mapkey-text", "nested-slice", "slice-bytes", "slice-from", "slice-plain", "slice-ptr", "slice-text"}
	inputs := map[string][]string{
		"slice":  {`[1,2,3,4,5]`, `[{"a":1},{"b":[2]},"x"]`, `[[1],[2,3],[]]`, `[]`, `["a","b"]`},
		"map":    {`{"a":1,"b":{"c":2},"d":[3]}`, `{"k":"v","k2":"v2"}`},
		"field":  {`{"A":1,"B":{"x":2},"C":[1,{"y":[2]},3]}`, `{"C":[[1],[2]],"A":"s"}`},
		"nested": {`[[1,2],[3],[{"a":1}]]`, `[[],[[1]]]`},
	}
	for _, m := range modes {
		for _, t := range targets {
			key := "slice"
			switch {
			case strings.HasPrefix(t, "map"):
				key = "map"
			case strings.HasPrefix(t, "field"):
				key = "field"
			case strings.HasPrefix(t, "nested"):
				key = "nested"
			}
			for _, in := range inputs[key] {
				for _, o := range []string{"default", "v1", "legacy-errors", "legacy-errors+merge"} {
					for _, via := range []string{"method", "func"} {
						if via == "func" && !(t == "slice-plain" || t == "slice-from" || t == "nested-slice" || t == "field-from") {
							continue
						}
						if mine() {
							w.Do("progress", &progressArgs{Mode: m, Target: t, Opts: o, Input: in, Via: via})
						}
					}
				}
			}
		}
	}
}

var _ = run.Trunc

package main

// Hostile sweep: generated and mutated texts, random call scripts and random Go values are
// replayed through the whole public API with only the panic / termination monitor.  Every
// call may return any result; it must return, and must not panic.

import (
	"bytes"
	"errors"
	"fmt"
	"hash/fnv"
	"io"
	"math"
	"math/rand/v2"
	"os"
	"reflect"
	"runtime/pprof"
	"strings"
	"time"

	json "github.com/go-json-experiment/json"
	"github.com/go-json-experiment/json/jsontext"
	v1 "github.com/go-json-experiment/json/v1"

	"verif/gen"
	"verif/ref"
	"verif/run"
)

type sweepArgs struct {
	Mode  string `json:"mode"` // text | script | govalue
	Batch int    `json:"batch"`
	N     int    `json:"n"`
}

type sweepStats struct {
	calls, errs, oks int64
}

func (s *sweepStats) e(err error) {
	s.calls++
	if err != nil {
		s.errs++
	} else {
		s.oks++
	}
}

func pick[T any](r *rand.Rand, xs []T) T { return xs[r.IntN(len(xs))] }

var blankIndents = []string{"", " ", "\t", "  ", " \t ", "\t\t\t\t"}

func randTextOpts(r *rand.Rand) []jsontext.Options {
	var o []jsontext.Options
	b := func() bool { return r.IntN(2) == 0 }
	for _, c := range []func(bool) jsontext.Options{jsontext.AllowDuplicateNames, jsontext.AllowInvalidUTF8, jsontext.EscapeForHTML, jsontext.EscapeForJS,
		jsontext.PreserveRawStrings, jsontext.CanonicalizeRawInts, jsontext.CanonicalizeRawFloats, jsontext.ReorderRawObjects,
		jsontext.SpaceAfterColon, jsontext.SpaceAfterComma, jsontext.Multiline} {
		if r.IntN(4) == 0 {
			o = append(o, c(b()))
		}
	}
	if r.IntN(6) == 0 {
		o = append(o, jsontext.WithIndent(pick(r, blankIndents)))
	}
	if r.IntN(8) == 0 {
		o = append(o, jsontext.WithIndentPrefix(pick(r, blankIndents)))
	}
	if r.IntN(10) == 0 {
		o = append(o, nil)
	}
	r.Shuffle(len(o), func(i, j int) { o[i], o[j] = o[j], o[i] })
	return o
}

var sweepMarshalers = json.JoinMarshalers(
	json.MarshalFunc(func(v int8) ([]byte, error) { return []byte(`"i8"`), nil }),
	json.MarshalToFunc(func(e *jsontext.Encoder, v uint16) error { return e.WriteToken(jsontext.Uint(uint64(v))) }),
	json.MarshalFunc(func(v bool) ([]byte, error) {
		if v {
			return nil, errors.ErrUnsupported
		}
		return []byte(`0`), nil
	}),
)
var sweepUnmarshalers = json.JoinUnmarshalers(
	json.UnmarshalFunc(func(b []byte, v *int8) error { *v = int8(len(b)); return nil }),
	json.UnmarshalFromFunc(func(d *jsontext.Decoder, v *uint16) error { return d.SkipValue() }),
)

func randArshalOpts(r *rand.Rand) []json.Options {
	o := randTextOpts(r)
	b := func() bool { return r.IntN(2) == 0 }
	for _, c := range []func(bool) json.Options{json.StringifyNumbers, json.Deterministic, json.FormatNilMapAsNull, json.FormatNilSliceAsNull,
		json.OmitZeroStructFields, json.MatchCaseInsensitiveNames, json.RejectUnknownMembers, json.ExperimentalSupportFormatTag,
		v1.CallMethodsWithLegacySemantics, v1.FormatByteArrayAsArray, v1.FormatBytesWithLegacySemantics, v1.FormatDurationAsNano,
		v1.MatchCaseSensitiveDelimiter, v1.MergeWithLegacySemantics, v1.OmitEmptyWithLegacySemantics, v1.ParseBytesWithLooseRFC4648,
		v1.ParseTimeWithLooseRFC3339, v1.ReportErrorsWithLegacySemantics, v1.StringifyWithLegacySemantics, v1.UnmarshalArrayFromAnyLength} {
		if r.IntN(6) == 0 {
			o = append(o, c(b()))
		}
	}
	switch r.IntN(12) {
	case 0:
		o = append(o, v1.DefaultOptionsV1())
	case 1:
		o = append(o, json.DefaultOptionsV2())
	case 2:
		o = append(o, json.WithMarshalers(sweepMarshalers), json.WithUnmarshalers(sweepUnmarshalers))
	case 3:
		o = []json.Options{json.JoinOptions(o...)}
	}
	r.Shuffle(len(o), func(i, j int) { o[i], o[j] = o[j], o[i] })
	return o
}

type ZooEmb struct {
	E1 int
	E2 string `json:"key"`
}

type zoo struct {
	B    bool
	I    int
	I8   int8
	U8   uint8
	U16  uint16
	U64  uint64
	F32  float32
	F64  float64
	S    string `json:"a"`
	Bs   []byte `json:"b"`
	Ba   [4]byte
	T    time.Time     `json:"ab"`
	D    time.Duration `json:"A"`
	D2   time.Duration
	P    *int `json:",omitempty"`
	PP   **string
	Any  any `json:"Key"`
	M    map[string]any
	MI   map[int]string
	Sl   []any
	Arr  [2]int
	V    jsontext.Value `json:",omitzero"`
	N    v1.Number
	Str  int      `json:",string"`
	FStr *float64 `json:",string,omitempty"`
	Ci   string   `json:"k_e-y,case:ignore"`
	Rec  *zoo     `json:"<&>"`
	ZooEmb
	Inl map[string]jsontext.Value `json:",embed"`
}

func sweepTargets() []any {
	return []any{new(any), new(zoo), new(map[string]any), new([]any), new(jsontext.Value), new(int), new(string), new(v1.Number), new(time.Time),
		new([]zoo), new(map[string]*zoo), new(float32), new([]byte), new([3]any), new(*zoo), new(map[int]any), new(bool), new(uint8), new([]string),
		new(time.Duration), new(struct{}), new(map[string]jsontext.Value), new([]*int), new(error), new(fmt.Stringer)}
}

type failWriter struct {
	n   int
	err error
}

func (f *failWriter) Write(p []byte) (int, error) {
	if f.n >= len(p) {
		f.n -= len(p)
		return len(p), nil
	}
	n := f.n
	f.n = 0
	return n, f.err
}

type chunkReader struct {
	b    []byte
	size int
	fail int // fail once when this many bytes remain (0 = never)
}

func (c *chunkReader) Read(p []byte) (int, error) {
	if c.fail > 0 && len(c.b) <= c.fail {
		c.fail = 0
		return 0, errors.New("transient read fault")
	}
	if len(c.b) == 0 {
		return 0, io.EOF
	}
	n := min(len(p), c.size, len(c.b))
	copy(p, c.b[:n])
	c.b = c.b[n:]
	return n, nil
}

func randReader(r *rand.Rand, b []byte) io.Reader {
	switch r.IntN(5) {
	case 0:
		return bytes.NewBuffer(bytes.Clone(b))
	case 1:
		return &chunkReader{b: b, size: 1}
	case 2:
		return &chunkReader{b: b, size: 1 + r.IntN(7), fail: r.IntN(len(b) + 1)}
	case 3:
		return strings.NewReader(string(b))
	}
	return bytes.NewReader(b)
}

func useToken(st *sweepStats, t jsontext.Token) {
	k := t.Kind()
	_ = k.String()
	_ = t.String()
	c := t.Clone()
	_ = c.Kind()
	switch k {
	case 't', 'f':
		_ = t.Bool()
	case '0':
		_, err := t.Int()
		st.e(err)
		_, err = t.Uint()
		st.e(err)
		_, err = t.Float()
		st.e(err)
		_, err = c.Float32()
		st.e(err)
	case '"':
		switch t.String() {
		case "NaN", "Infinity", "-Infinity":
			_, err := t.Float()
			st.e(err)
		}
	}
}

func probeDecoder(st *sweepStats, d *jsontext.Decoder) {
	n := d.StackDepth()
	for i := 0; i <= n && i < 40; i++ {
		d.StackIndex(i)
	}
	p := d.StackPointer()
	usePointer(p)
	_ = d.InputOffset()
	_ = d.UnreadBuffer()
	_ = d.Options()
	st.calls += 5
}

func probeEncoder(st *sweepStats, e *jsontext.Encoder) {
	n := e.StackDepth()
	for i := 0; i <= n && i < 40; i++ {
		e.StackIndex(i)
	}
	usePointer(e.StackPointer())
	_ = e.OutputOffset()
	_ = e.AvailableBuffer()
	_ = e.Options()
	st.calls += 5
}

// pointerLoops counts Pointer.Tokens iterations that had to be cut off (reported by runSweep).
var pointerLoops int

func usePointer(p jsontext.Pointer) {
	_ = p.IsValid()
	n := 0
	for tok := range p.Tokens() {
		_ = tok
		if n++; n > len(p)+2 {
			pointerLoops++ // more tokens than bytes: the iterator makes no progress
			break
		}
	}
	_ = p.Parent()
	_ = p.LastToken()
	q := p.AppendToken(p.LastToken())
	_ = p.Contains(q)
	_ = q.Contains(p)
}

// sweepText pushes one text through the API.
var groupTime = map[string]time.Duration{}

func timed(w *run.W, name string, fn func()) {
	if !w.Replay {
		guardLib(w, "hostile-sweep", name, fn)
		return
	}
	t0 := time.Now() // diagnostics in replay mode only
	guardLib(w, "hostile-sweep", name, fn)
	groupTime[name] += time.Since(t0)
}

// sameDup appends the coder's own AllowDuplicateNames as the last per-call option: a
// per-call value that differs, on a coder that is used again after the call failed, is the
// history of known finding F15 and is exercised by the dedicated exec "reuse-after-failed-call".
func sameDup(o []json.Options, coder json.Options) []json.Options {
	dup, _ := json.GetOption(coder, jsontext.AllowDuplicateNames)
	return append(o, jsontext.AllowDuplicateNames(dup))
}

func sweepText(w *run.W, r *rand.Rand, b []byte, st *sweepStats) {
	capN := len(b) + 3

	// token loop with every accessor
	timed(w, "tokens", func() {
		d := jsontext.NewDecoder(randReader(r, b), randTextOpts(r)...)
		after := 0
		for i := 0; i < capN+4; i++ {
			_ = d.PeekKind()
			t, err := d.ReadToken()
			st.e(err)
			if err != nil {
				if after++; after > 3 {
					break
				}
				continue
			}
			useToken(st, t)
			if r.IntN(8) == 0 {
				probeDecoder(st, d)
			}
		}
		probeDecoder(st, d)
	})

	// random interleaving of the reading calls; keeps calling after the first error
	timed(w, "interleave", func() {
		d := jsontext.NewDecoder(randReader(r, b), randTextOpts(r)...)
		after := 0
		for i := 0; i < capN+4 && after <= 3; i++ {
			var err error
			switch r.IntN(8) {
			case 0, 1, 2:
				var t jsontext.Token
				if t, err = d.ReadToken(); err == nil {
					useToken(st, t)
				}
			case 3, 4:
				var v jsontext.Value
				if v, err = d.ReadValue(); err == nil {
					_ = v.Kind()
					_ = v.Clone()
				}
			case 5:
				err = d.SkipValue()
			case 6:
				_ = d.PeekKind()
				probeDecoder(st, d)
			case 7:
				var x any
				err = json.UnmarshalDecode(d, &x, sameDup(randArshalOpts(r), d.Options())...)
			}
			st.e(err)
			if err != nil {
				after++
			}
		}
		if r.IntN(4) == 0 {
			d.Reset(randReader(r, b), randTextOpts(r)...)
			_, err := d.ReadValue()
			st.e(err)
			probeDecoder(st, d)
		}
	})

	// Value methods and the Append functions
	timed(w, "value-methods", func() {
		v := jsontext.Value(b)
		_ = v.IsValid()
		_ = v.IsValid(randTextOpts(r)...)
		_ = v.Kind()
		_ = v.String()
		_, err := v.MarshalJSON()
		st.e(err)
		for _, m := range []func(*jsontext.Value, ...jsontext.Options) error{(*jsontext.Value).Format, (*jsontext.Value).Compact, (*jsontext.Value).Indent, (*jsontext.Value).Canonicalize} {
			c := v.Clone()
			st.e(m(&c, randTextOpts(r)...))
			c = v.Clone()
			st.e(m(&c))
			if c != nil && r.IntN(4) == 0 {
				st.e(m(&c, randTextOpts(r)...)) // again on the already formatted value
			}
		}
		var u jsontext.Value
		st.e(u.UnmarshalJSON(b))
		if r.IntN(16) == 0 {
			st.e((*jsontext.Value)(nil).UnmarshalJSON(b)) // documented: an error for a nil receiver
		}
		_, err = jsontext.AppendFormat([]byte("prefix"), b, randTextOpts(r)...)
		st.e(err)
		_, err = jsontext.AppendFormat(nil, string(b), randTextOpts(r)...)
		st.e(err)
		_, err = jsontext.AppendQuote(nil, b)
		st.e(err)
		q, err := jsontext.AppendQuote([]byte("x"), string(b))
		st.e(err)
		_, err = jsontext.AppendUnquote(nil, b)
		st.e(err)
		_, err = jsontext.AppendUnquote([]byte("x"), string(b))
		st.e(err)
		if len(q) > 0 {
			_, err = jsontext.AppendUnquote(nil, q[1:])
			st.e(err)
		}
		usePointer(jsontext.Pointer(b))
		usePointer(jsontext.Pointer("/" + string(b)))
	})

	// unmarshal into a zoo of targets, marshal whatever came out
	timed(w, "unmarshal-zoo", func() {
		for i, tgt := range sweepTargets() {
			if i > 1 && r.IntN(3) != 0 {
				continue
			}
			var err error
			switch r.IntN(3) {
			case 0:
				err = json.Unmarshal(b, tgt, randArshalOpts(r)...)
			case 1:
				err = json.UnmarshalRead(randReader(r, b), tgt, randArshalOpts(r)...)
			case 2:
				err = json.UnmarshalDecode(jsontext.NewDecoder(randReader(r, b), randTextOpts(r)...), tgt, randArshalOpts(r)...)
			}
			st.e(err)
			// merge a second time into the populated target
			if r.IntN(4) == 0 {
				st.e(json.Unmarshal(b, tgt, randArshalOpts(r)...))
			}
			var out []byte
			switch r.IntN(3) {
			case 0:
				out, err = json.Marshal(tgt, randArshalOpts(r)...)
			case 1:
				var buf bytes.Buffer
				err = json.MarshalWrite(&buf, reflect.ValueOf(tgt).Elem().Interface(), randArshalOpts(r)...)
				out = buf.Bytes()
			case 2:
				err = json.MarshalWrite(&failWriter{n: r.IntN(64), err: errors.New("write fault")}, tgt, randArshalOpts(r)...)
			}
			st.e(err)
			_ = out
		}
	})

	// encoder: raw value, token replay, under random options and writers
	timed(w, "encoder", func() {
		var buf bytes.Buffer
		var wr io.Writer = &buf
		switch r.IntN(4) {
		case 0:
			wr = io.Discard
		case 1:
			wr = &failWriter{n: r.IntN(len(b) + 2), err: errors.New("write fault")}
		}
		e := jsontext.NewEncoder(wr, randTextOpts(r)...)
		st.e(e.WriteValue(b))
		st.e(e.WriteValue(b))
		probeEncoder(st, e)
		e.Reset(&buf, randTextOpts(r)...)
		d := jsontext.NewDecoder(bytes.NewReader(b), jsontext.AllowDuplicateNames(r.IntN(2) == 0), jsontext.AllowInvalidUTF8(r.IntN(2) == 0))
		for i := 0; i < capN; i++ {
			t, err := d.ReadToken()
			if err != nil {
				break
			}
			if r.IntN(16) == 0 {
				t = t.Clone()
			}
			st.e(e.WriteToken(t))
		}
		probeEncoder(st, e)
	})

	// v1 surface
	timed(w, "v1", func() {
		_ = v1.Valid(b)
		var buf bytes.Buffer
		st.e(v1.Compact(&buf, b))
		buf.Reset()
		st.e(v1.Indent(&buf, b, pick(r, v1Indents), pick(r, v1Indents)))
		buf.Reset()
		v1.HTMLEscape(&buf, b)
		st.calls += 2
		for i, tgt := range sweepTargets() {
			if i > 1 && r.IntN(4) != 0 {
				continue
			}
			st.e(v1.Unmarshal(b, tgt))
			_, err := v1.Marshal(tgt)
			st.e(err)
			_, err = v1.MarshalIndent(reflect.ValueOf(tgt).Elem().Interface(), pick(r, v1Indents), pick(r, v1Indents))
			st.e(err)
		}
		d := v1.NewDecoder(randReader(r, b))
		if r.IntN(3) == 0 {
			d.UseNumber()
		}
		if r.IntN(3) == 0 {
			d.DisallowUnknownFields()
		}
		after := 0
		for i := 0; i < capN+4 && after <= 3; i++ {
			var err error
			switch r.IntN(6) {
			case 0:
				_ = d.More()
				st.calls++
			case 1, 2:
				_, err = d.Token()
				st.e(err)
			case 3:
				var x any
				err = d.Decode(&x)
				st.e(err)
			case 4:
				err = d.Decode(new(zoo))
				st.e(err)
			case 5:
				_ = d.InputOffset()
				io.Copy(io.Discard, d.Buffered())
				st.calls += 2
			}
			if err != nil {
				after++
			}
		}
		var x any
		if json.Unmarshal(b, &x, jsontext.AllowDuplicateNames(true), jsontext.AllowInvalidUTF8(true)) == nil {
			e := v1.NewEncoder(&buf)
			if r.IntN(2) == 0 {
				e.SetIndent(pick(r, v1Indents), pick(r, v1Indents))
			}
			if r.IntN(2) == 0 {
				e.SetEscapeHTML(r.IntN(2) == 0)
			}
			st.e(e.Encode(x))
			st.e(e.Encode(v1.Number(strings.TrimSpace(string(b)))))
			st.e(e.Encode(v1.RawMessage(b)))
		}
		n := v1.Number(b)
		_, err := n.Float64()
		st.e(err)
		_, err = n.Int64()
		st.e(err)
		_ = n.String()
	})
}

var v1Indents = []string{"", " ", "\t", ">", "ab", "\n", "é", "  "}

var scriptStrings = []string{"", "a", "b", "a", "key", "\xff", "é😀", "<&> ", "\x00", "NaN", "Infinity", strings.Repeat("long", 300)}
var scriptValues = []string{`null`, `true`, `0`, `-0.0`, `1e400`, `"a"`, `"b"`, `[]`, `{}`, `{"a":1}`, `{"a":1,"a":2}`, `[1,[2,{"k":[]}]]`, ` 1 `, `1 2`, ``, `[`, `}`, `"\ud800"`,
	"\"\xff\"", `{"a"}`, `nul`, `01`, `{"b":{"b":{}},"a":[]}`, " \n\t[ ]\r", `"` + strings.Repeat("x", 5000) + `"`, `123456789012345678901234567890`}

func randToken(r *rand.Rand) jsontext.Token {
	switch r.IntN(16) {
	case 0, 1:
		return jsontext.BeginObject
	case 2, 3:
		return jsontext.EndObject
	case 4, 5:
		return jsontext.BeginArray
	case 6, 7:
		return jsontext.EndArray
	case 8, 9, 10:
		return jsontext.String(pick(r, scriptStrings))
	case 11:
		return jsontext.Int(pick(r, gen.C19Ints))
	case 12:
		return jsontext.Uint(r.Uint64() >> uint(r.IntN(64)))
	case 13:
		return jsontext.Float(pick(r, []float64{0, math.Copysign(0, -1), 1.5, 1e300, math.NaN(), math.Inf(1), math.Inf(-1), math.SmallestNonzeroFloat64}))
	case 14:
		return pick(r, []jsontext.Token{jsontext.Null, jsontext.True, jsontext.False, jsontext.Bool(true), jsontext.Float32(float32(math.Inf(-1))), jsontext.Float32(1e-45)})
	}
	return jsontext.Token{}
}

// sweepScript runs one random call script against an Encoder and reads the output back.
func sweepScript(w *run.W, r *rand.Rand, st *sweepStats) (shape uint64) {
	h := fnv.New64a()
	guardLib(w, "hostile-sweep", "script", func() {
		var buf bytes.Buffer
		var wr io.Writer = &buf
		switch r.IntN(5) {
		case 0:
			wr = io.Discard
		case 1:
			wr = &failWriter{n: r.IntN(200), err: errors.New("write fault")}
		}
		e := jsontext.NewEncoder(wr, randTextOpts(r)...)
		n := 1 + r.IntN(40)
		trace := func(format string, a ...any) {
			if w.Replay {
				fmt.Fprintf(os.Stderr, "script: "+format+"\n", a...)
			}
		}
		trace("NewEncoder(%T, %v)", wr, e.Options())
		defer func() {
			if r := recover(); r != nil {
				trace("PANIC %v", r)
				panic(r)
			}
		}()
		for i := 0; i < n; i++ {
			var err error
			switch k := r.IntN(12); {
			case k < 7:
				t := randToken(r)
				h.Write([]byte{byte(t.Kind())})
				trace("WriteToken(%v %q)", t.Kind(), run.Trunc(t.String(), 20))
				err = e.WriteToken(t)
			case k < 10:
				v := pick(r, scriptValues)
				if r.IntN(4) == 0 {
					v = string(gen.Mutate(r, gen.Value(r, &gen.TextCfg{MaxDepth: 3, MaxWidth: 3, Invalid: true, WS: true, DupPercent: 20})))
				}
				h.Write([]byte{'V', byte(jsontext.Value(v).Kind())})
				trace("WriteValue(%q)", run.Trunc(v, 60))
				err = e.WriteValue(jsontext.Value(v))
			case k == 10:
				h.Write([]byte{'M'})
				zv := gen.C19Value(r, reflect.TypeFor[zoo](), &gen.C19ValueCfg{NaN: true}).Interface()
				zo := sameDup(randArshalOpts(r), e.Options())
				trace("MarshalEncode(zoo, %v)", json.JoinOptions(zo...))
				err = json.MarshalEncode(e, zv, zo...)
			default:
				h.Write([]byte{'P'})
				probeEncoder(st, e)
				if r.IntN(6) == 0 {
					e.Reset(wr, randTextOpts(r)...)
					trace("Reset(%v)", e.Options())
				}
			}
			trace("  -> %v (depth %d)", err, e.StackDepth())
			st.e(err)
			if err != nil {
				h.Write([]byte{'!'})
			}
		}
		probeEncoder(st, e)
		// whatever was written is read back with a matching decoder
		d := jsontext.NewDecoder(bytes.NewReader(buf.Bytes()), jsontext.AllowDuplicateNames(true), jsontext.AllowInvalidUTF8(true))
		for i := 0; i < buf.Len()+2; i++ {
			if _, err := d.ReadToken(); err != nil {
				break
			}
		}
	})
	return h.Sum64()
}

// sweepGoValue marshals a random value of a random type under random options and feeds
// outputs, mutated outputs and foreign texts back into the same type.
func sweepGoValue(w *run.W, r *rand.Rand, st *sweepStats) (shape string) {
	t := gen.C19Type(r, &gen.C19TypeCfg{MaxDepth: 1 + r.IntN(4), FloatKeys: true, BigStructs: r.IntN(4) == 0, Tags: true})
	shape = t.String()
	if len(shape) > 200 {
		shape = shape[:200]
	}
	guardLib(w, "hostile-sweep", "govalue", func() {
		for k := 0; k < 3; k++ {
			v := gen.C19Value(r, t, &gen.C19ValueCfg{NaN: r.IntN(4) == 0})
			p := reflect.New(t)
			p.Elem().Set(v)
			opts := randArshalOpts(r)
			out, err := json.Marshal(p.Interface(), opts...)
			st.e(err)
			_, err2 := v1.Marshal(v.Interface())
			st.e(err2)
			if err != nil {
				continue
			}
			q := reflect.New(t)
			st.e(json.Unmarshal(out, q.Interface(), opts...))
			st.e(json.Unmarshal(out, p.Interface(), randArshalOpts(r)...)) // merge into the populated value
			mut := out
			for m := 1 + r.IntN(3); m > 0; m-- {
				mut = gen.Mutate(r, mut)
			}
			st.e(json.Unmarshal(mut, reflect.New(t).Interface(), randArshalOpts(r)...))
			st.e(v1.Unmarshal(mut, reflect.New(t).Interface()))
			foreign := gen.Value(r, &gen.TextCfg{MaxDepth: 3, MaxWidth: 4, Invalid: r.IntN(3) == 0, WS: true, DupPercent: 10})
			st.e(json.Unmarshal(foreign, reflect.New(t).Interface(), randArshalOpts(r)...))
		}
	})
	return shape
}

var bigTexts = func() []string {
	deep := strings.Repeat(`[{"a":`, 300) + `1` + strings.Repeat(`}]`, 300)
	return []string{
		deep, deep[:len(deep)-1], strings.Repeat("[", 1200), strings.Repeat(`{"a":`, 700),
		`"` + strings.Repeat(`😀`, 700) + `"`, `"` + strings.Repeat("\xf0\x9f\x98", 500) + `"`,
		"-" + strings.Repeat("9", 5000) + "." + strings.Repeat("9", 5000) + "e-" + strings.Repeat("9", 50),
		"[" + strings.Repeat("1,", 4000) + "1]", "{" + strings.Repeat(`"k":0,`, 2000) + `"k":0}`,
		strings.Repeat(" ", 70000) + "1", strings.Repeat("null ", 3000), "[" + strings.Repeat(`"\u0000",`, 3000) + `""]`,
	}
}()

func sweepTextFor(r *rand.Rand) []byte {
	if r.IntN(200) == 0 {
		b := []byte(pick(r, bigTexts))
		if r.IntN(2) == 0 {
			b = gen.Mutate(r, b)
		}
		return b
	}
	cfg := &gen.TextCfg{MaxDepth: 1 + r.IntN(5), MaxWidth: 1 + r.IntN(6), Invalid: r.IntN(3) == 0, WS: r.IntN(2) == 0, DupPercent: r.IntN(30)}
	b := gen.Value(r, cfg)
	for m := r.IntN(4); m > 0; m-- {
		b = gen.Mutate(r, b)
	}
	if r.IntN(6) == 0 {
		b = append(b, pick(r, []string{"", " ", "\n", ","})...)
		b = append(b, gen.Value(r, cfg)...)
	}
	if r.IntN(12) == 0 {
		// long runs of insignificant whitespace around the value (they fill the read buffer without adding a token)
		ws := strings.Repeat(pick(r, []string{" ", "\n", " \t", "\r\n"}), pick(r, []int{40, 48, 63, 64, 65, 100, 200, 5000}))
		switch r.IntN(3) {
		case 0:
			b = append(b, ws...)
		case 1:
			b = append([]byte(ws), b...)
		default:
			b = append(append([]byte(ws[:len(ws)/2]), b...), ws...)
		}
	}
	if r.IntN(40) == 0 {
		// raw random bytes
		b = make([]byte, r.IntN(24))
		for i := range b {
			b[i] = byte(r.Uint32())
		}
	}
	return b
}

func runSweep(w *run.W, a *sweepArgs) {
	r := w.Rand("sweep", a.Mode, a.Batch)
	var st sweepStats
	for i := 0; i < a.N; i++ {
		switch a.Mode {
		case "text":
			b := sweepTextFor(r)
			sweepText(w, r, bytes.Clone(b), &st)
			toks, errOff, complete := ref.Tokenize(b, ref.Opts{AllowInvalidUTF8: true, AllowDup: true})
			h := fnv.New64a()
			for _, t := range toks {
				h.Write([]byte{t.Kind})
			}
			if errOff < 0 && complete {
				h.Write([]byte{1})
				w.Count("sweep_texts_wellformed", 1)
			} else {
				w.Count("sweep_texts_malformed", 1)
			}
			w.ShapeHash(h.Sum64())
			w.Count("sweep_texts", 1)
			if w.WantSample() && i == 3 {
				w.Sample(map[string]any{"exec": "sweep/text", "text": run.Trunc(string(b), 200)})
			}
		case "script":
			w.ShapeHash(sweepScript(w, r, &st))
			w.Count("sweep_scripts", 1)
		case "govalue":
			w.Shape("type|" + sweepGoValue(w, r, &st))
			w.Count("sweep_go_types", 1)
		default:
			w.Broken("sweep: unknown mode %q", a.Mode)
			return
		}
		w.Eval(1)
		if i%200 == 199 {
			w.Beat()
		}
	}
	if w.Replay {
		fmt.Fprintln(os.Stderr, "sweep group times:", groupTime)
		pprof.StopCPUProfile()
	}
	if pointerLoops > 0 {
		w.Violate("no-termination", map[string]string{"api": "Pointer.Tokens"}, "Pointer.Tokens yielded more tokens than the pointer has bytes (%d times in this block)", pointerLoops)
		pointerLoops = 0
	}
	w.Count("sweep_api_calls", st.calls)
	w.Count("sweep_calls_returning_error", st.errs)
	w.Count("sweep_calls_returning_nil", st.oks)
}

package main

// Documented API-misuse panics (closed list, DESIGN §4 C20): each is provoked on purpose,
// recovered locally, and must turn out to be an ordinary recoverable panic raised by the
// library's own check — not a crash, not a nil dereference or index error from deeper code.

import (
	"bytes"
	"fmt"
	"io"
	"runtime"
	"strings"

	json "github.com/go-json-experiment/json"
	"github.com/go-json-experiment/json/jsontext"

	"verif/run"
)

type misuseArgs struct {
	Name string `json:"name"`
}

type resetInMarshal struct{}

func (resetInMarshal) MarshalJSONTo(e *jsontext.Encoder) error {
	e.Reset(io.Discard)
	return e.WriteToken(jsontext.Null)
}

type resetInUnmarshal struct{}

func (*resetInUnmarshal) UnmarshalJSONFrom(d *jsontext.Decoder) error {
	d.Reset(strings.NewReader("1"))
	return d.SkipValue()
}

type namedIntPtr *int

type misuseCase struct {
	name string
	fn   func()
}

func voidedToken() jsontext.Token {
	d := jsontext.NewDecoder(strings.NewReader(`["abc", 12345]`))
	d.ReadToken()
	t, _ := d.ReadToken() // "abc", raw form
	d.ReadToken()         // voids t
	return t
}

var misuseCases = []misuseCase{
	{"NewEncoder(nil)", func() { jsontext.NewEncoder(nil) }},
	{"NewDecoder(nil)", func() { jsontext.NewDecoder(nil) }},
	{"Encoder.Reset(nil writer)", func() { jsontext.NewEncoder(io.Discard).Reset(nil) }},
	{"Decoder.Reset(nil reader)", func() { jsontext.NewDecoder(strings.NewReader("")).Reset(nil) }},
	{"nil Encoder.Reset", func() { (*jsontext.Encoder)(nil).Reset(io.Discard) }},
	{"nil Decoder.Reset", func() { (*jsontext.Decoder)(nil).Reset(strings.NewReader("")) }},
	{"Reset in MarshalJSONTo", func() { json.Marshal(resetInMarshal{}) }},
	{"Reset in MarshalJSONTo (MarshalWrite)", func() { json.MarshalWrite(io.Discard, []any{resetInMarshal{}}) }},
	{"Reset in MarshalJSONTo (MarshalEncode)", func() {
		json.MarshalEncode(jsontext.NewEncoder(new(bytes.Buffer)), map[string]any{"k": resetInMarshal{}})
	}},
	{"Reset in MarshalToFunc", func() {
		json.Marshal(1, json.WithMarshalers(json.MarshalToFunc(func(e *jsontext.Encoder, v int) error {
			e.Reset(io.Discard)
			return nil
		})))
	}},
	{"Reset in UnmarshalJSONFrom", func() { json.Unmarshal([]byte(`[1]`), new([]resetInUnmarshal)) }},
	{"Reset in UnmarshalJSONFrom (UnmarshalRead)", func() { json.UnmarshalRead(strings.NewReader(`{"a":1}`), new(map[string]*resetInUnmarshal)) }},
	{"Reset in UnmarshalJSONFrom (UnmarshalDecode)", func() {
		json.UnmarshalDecode(jsontext.NewDecoder(strings.NewReader(`1`)), new(resetInUnmarshal))
	}},
	{"Reset in UnmarshalFromFunc", func() {
		json.Unmarshal([]byte(`1`), new(int), json.WithUnmarshalers(json.UnmarshalFromFunc(func(d *jsontext.Decoder, v *int) error {
			d.Reset(strings.NewReader(""))
			return nil
		})))
	}},
	{"Token.Bool on null", func() { jsontext.Null.Bool() }},
	{"Token.Bool on string", func() { jsontext.String("true").Bool() }},
	{"Token.Bool on number", func() { jsontext.Int(1).Bool() }},
	{"Token.Bool on zero Token", func() { jsontext.Token{}.Bool() }},
	{"Token.Int on string", func() { jsontext.String("1").Int() }},
	{"Token.Int on delimiter", func() { jsontext.BeginArray.Int() }},
	{"Token.Uint on bool", func() { jsontext.True.Uint() }},
	{"Token.Uint on zero Token", func() { jsontext.Token{}.Uint() }},
	{"Token.Float on string", func() { jsontext.String("1e5").Float() }},
	{"Token.Float on null", func() { jsontext.Null.Float() }},
	{"Token.Float32 on delimiter", func() { jsontext.EndObject.Float32() }},
	{"Token.Float32 on empty string", func() { jsontext.String("").Float32() }},
	{"voided Token.String", func() { _ = voidedToken().String() }},
	{"voided Token.Clone", func() { voidedToken().Clone() }},
	{"voided number Token.Int", func() {
		d := jsontext.NewDecoder(strings.NewReader(`[12345, 678]`))
		d.ReadToken()
		t, _ := d.ReadToken()
		d.ReadToken()
		t.Int()
	}},
	{"voided number Token.Float", func() {
		d := jsontext.NewDecoder(strings.NewReader(`[1.5, 678]`))
		d.ReadToken()
		t, _ := d.ReadToken()
		d.PeekKind()
		d.ReadValue()
		t.Float()
	}},
	{"AppendFloat bits=16", func() { jsontext.AppendFloat(nil, 1, 16) }},
	{"AppendFloat bits=0", func() { jsontext.AppendFloat(nil, 1, 0) }},
	{"WithIndent non-blank", func() { jsontext.WithIndent("x") }},
	{"WithIndent nbsp", func() { jsontext.WithIndent("  ") }},
	{"WithIndent newline", func() { jsontext.WithIndent("\n") }},
	{"WithIndentPrefix non-blank", func() { jsontext.WithIndentPrefix("\t>") }},
	{"MarshalFunc named pointer", func() { json.MarshalFunc(func(namedIntPtr) ([]byte, error) { return nil, nil }) }},
	{"MarshalToFunc named pointer", func() {
		json.MarshalToFunc(func(*jsontext.Encoder, namedIntPtr) error { return nil })
	}},
	{"UnmarshalFunc non-pointer", func() { json.UnmarshalFunc(func([]byte, int) error { return nil }) }},
	{"UnmarshalFunc named pointer", func() { json.UnmarshalFunc(func([]byte, namedIntPtr) error { return nil }) }},
	{"UnmarshalFromFunc non-pointer", func() {
		json.UnmarshalFromFunc(func(*jsontext.Decoder, struct{ X int }) error { return nil })
	}},
}

// provoke runs fn, returning the recovered panic value, whether the panic was raised by an
// explicit panic() call (as opposed to a runtime error), and the raising function.
func provoke(fn func()) (val any, panicked bool, explicit bool, origin string) {
	defer func() {
		if r := recover(); r != nil {
			val, panicked = r, true
			_, isRuntime := r.(runtime.Error)
			explicit = !isRuntime
			origin, _, _ = run.PanicOrigin()
		}
	}()
	fn()
	return
}

func runMisuse(w *run.W, a *misuseArgs) {
	for _, c := range misuseCases {
		if c.name != a.Name {
			continue
		}
		val, panicked, explicit, origin := provoke(c.fn)
		w.Eval(1)
		w.Shape("misuse|" + c.name)
		switch {
		case !panicked:
			// the documentation announces a panic; its absence is not a C20 violation
			w.Count("misuse_without_panic", 1)
		case !explicit:
			// a nil dereference / index error deep in the library is not the documented check
			w.Violate("misuse-runtime-error", map[string]string{"misuse": c.name},
				"documented misuse %q ended in a runtime error instead of the documented panic: %v (origin %s)", c.name, val, origin)
		default:
			w.Count("misuse_documented_panics", 1)
			if !strings.HasPrefix(origin, run.LibPrefix) {
				w.Broken("misuse %q: panic did not originate in the library but in %s: %v", c.name, origin, val)
			}
		}
		// ordinary calls afterwards run under the panic monitor (pooled coders may have been
		// abandoned mid-call); wrong results would be C18's business and are only counted
		after := func() {
			b, err := json.Marshal(map[string]any{"k": []any{1.0, "s", nil}})
			if err != nil || string(b) != `{"k":[1,"s",null]}` {
				w.Count("misuse_aftermath_mismatch", 1)
			}
			var v any
			if err := json.Unmarshal([]byte(` {"k":[1,"s",null]} `), &v); err != nil || fmt.Sprint(v) != "map[k:[1 s <nil>]]" {
				w.Count("misuse_aftermath_mismatch", 1)
			}
			w.Count("misuse_aftermath_calls", 2)
		}
		for i := 0; i < 4; i++ {
			after()
		}
		return
	}
	w.Broken("misuse: unknown case %q", a.Name)
}

package main

// A value of every length around the Decoder's buffer sizes, at the start of a stream, followed (and
// preceded) by runs of insignificant whitespace of every length around those sizes, through every kind of
// reader: whitespace fills the read buffer without producing a token, so the refill / grow / compact rules
// are exercised at all fill levels.  Panic and termination monitor (and the result must be a success).

import (
	"bytes"
	"io"
	"strings"

	"github.com/go-json-experiment/json"
	"github.com/go-json-experiment/json/jsontext"

	"verif/run"
)

type paddedArgs struct {
	L    int `json:"l"`    // length of the value text
	Lead int `json:"lead"` // whitespace before
	W    int `json:"w"`    // whitespace after
}

func runPadded(w *run.W, a *paddedArgs) {
	w.Eval(1)
	val := `"` + strings.Repeat("v", max(0, a.L-2)) + `"`
	if a.L < 2 {
		val = "7"
	}
	text := strings.Repeat(" ", a.Lead) + val + strings.Repeat("\n", a.W)
	readers := []func() io.Reader{
		func() io.Reader { return strings.NewReader(text) },
		func() io.Reader { return &oneByteReader{[]byte(text)} },
		func() io.Reader { return &chunkReader{b: []byte(text), size: 7} },
		func() io.Reader { return &chunkReader{b: []byte(text), size: 64} },
		func() io.Reader { return bytes.NewBufferString(text) },
	}
	for ri, mk := range readers {
		var v any
		if err := json.UnmarshalRead(mk(), &v); err != nil {
			w.Violate("padded-value-refused", map[string]string{"reader": string(rune('0' + ri))}, "UnmarshalRead of a %d-byte value after %d and before %d whitespace bytes: %v", a.L, a.Lead, a.W, err)
		}
		d := jsontext.NewDecoder(mk())
		if _, err := d.ReadValue(); err != nil {
			w.Violate("padded-value-refused", map[string]string{"reader": string(rune('0' + ri))}, "ReadValue of a %d-byte value after %d and before %d whitespace bytes: %v", a.L, a.Lead, a.W, err)
		}
		if _, err := d.ReadToken(); err != io.EOF {
			w.Violate("padded-value-refused", map[string]string{"reader": string(rune('0' + ri))}, "after the value and %d whitespace bytes ReadToken returned %v, want io.EOF", a.W, err)
		}
		w.Count("padded_reads", 3)
	}
}

func genPadded(w *run.W, mine func() bool) {
	sizes := []int{0, 1, 15, 16, 17, 31, 32, 33, 47, 48, 49, 63, 64, 65, 95, 96, 97, 127, 128, 129, 200, 4095, 4096, 4097}
	for _, l := range []int{1, 2, 15, 16, 17, 18, 31, 32, 33, 47, 48, 49, 62, 63, 64, 65, 66, 100, 200} {
		for _, wsp := range sizes {
			for _, lead := range []int{0, 1, 48, 64} {
				if mine() {
					w.Do("padded", &paddedArgs{L: l, Lead: lead, W: wsp})
				}
			}
		}
	}
}

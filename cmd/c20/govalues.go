package main

// Deep and cyclic Go values, built by hand through every pointer-like kind.

import (
	"bytes"
	"fmt"
	"io"
	"strings"

	json "github.com/go-json-experiment/json"
	"github.com/go-json-experiment/json/jsontext"
	v1 "github.com/go-json-experiment/json/v1"

	"verif/run"
)

type tL struct{ Next *tL }
type tLL struct{ Next **tLL }
type tA [1]*tA
type tI struct{ V any }
type tSP []*tSP
type tMP map[string]*tMP
type tMI map[int]tMI
type tE struct{ *TEin }
type TEin struct{ Next *tE }
type tNI interface{}
type tNS struct{ V tNI }
type tN struct{ M map[string]*tN }
type tO struct {
	X    int  `json:",omitzero"`
	Next *tO  `json:",omitzero"`
	Z    *int `json:",omitempty"`
}

// depth-free cycle types
type tP *tP
type tQ1 *tQ2
type tQ2 *tQ1

type deepArgs struct {
	Kind  string `json:"kind"`
	Depth int    `json:"depth"`
	Opt   string `json:"opt"` // "" | det | strnum | v1 | multiline
	Op    string `json:"op"`  // marshal | unmarshal
}

var deepKinds = []string{"ptr-struct", "ptrptr-struct", "map", "slice", "array-ptr", "struct-any", "any-slice", "any-map", "any-alt",
	"any-array1", "slice-ptr", "map-ptr", "map-int-key", "embedded-ptr", "named-iface", "omitzero-struct", "ptr-to-any-chain"}

// deepValue builds a value of the given kind whose JSON form nests exactly n containers.
func deepValue(kind string, n int) any {
	switch kind {
	case "ptr-struct":
		var l *tL
		for i := 0; i < n; i++ {
			l = &tL{l}
		}
		return l
	case "ptrptr-struct":
		var l *tLL
		for i := 0; i < n; i++ {
			p := l
			if p == nil {
				l = &tLL{nil}
			} else {
				l = &tLL{&p}
			}
		}
		return l
	case "map":
		m := tM{}
		for i := 1; i < n; i++ {
			m = tM{"a": m}
		}
		return m
	case "slice":
		s := tS{}
		for i := 1; i < n; i++ {
			s = tS{s}
		}
		return s
	case "array-ptr":
		var a *tA
		for i := 0; i < n; i++ {
			a = &tA{a}
		}
		return a
	case "struct-any":
		var v any
		for i := 0; i < n; i++ {
			if i%2 == 0 {
				v = &tI{v}
			} else {
				v = tI{v}
			}
		}
		return v
	case "any-slice":
		var v any = []any{}
		for i := 1; i < n; i++ {
			v = []any{v}
		}
		return v
	case "any-map":
		var v any = map[string]any{}
		for i := 1; i < n; i++ {
			v = map[string]any{"k": v}
		}
		return v
	case "any-alt":
		var v any = map[string]any{}
		for i := 1; i < n; i++ {
			if i%2 == 0 {
				v = map[string]any{"k": v, "j": nil}
			} else {
				v = []any{1.5, v}
			}
		}
		return v
	case "any-array1":
		var v any = [1]any{nil}
		for i := 1; i < n; i++ {
			v = [1]any{v}
		}
		return v
	case "slice-ptr":
		s := tSP{}
		for i := 1; i < n; i++ {
			p := s
			s = tSP{&p}
		}
		return s
	case "map-ptr":
		m := tMP{}
		for i := 1; i < n; i++ {
			p := m
			m = tMP{"a": &p}
		}
		return m
	case "map-int-key":
		m := tMI{}
		for i := 1; i < n; i++ {
			m = tMI{i % 3: m}
		}
		return m
	case "embedded-ptr":
		e := &tE{}
		for i := 1; i < n; i++ {
			e = &tE{&TEin{Next: e}}
		}
		return e
	case "named-iface":
		var v tNI
		for i := 0; i < n; i++ {
			v = tNS{v}
		}
		return v
	case "omitzero-struct":
		var l *tO
		for i := 0; i < n; i++ {
			l = &tO{X: i % 2, Next: l}
		}
		return l
	case "ptr-to-any-chain":
		// *any -> any -> *any ... adds no depth; the slices in between do
		var v any = []any{}
		for i := 1; i < n; i++ {
			inner := v
			p := &inner
			v = []any{&p}
		}
		return v
	}
	return nil
}

// deepText is the JSON text for unmarshaling into deepTarget(kind) with n nested containers.
func deepText(kind string, n int) []byte {
	rep := func(open, inner, cl string, k int) []byte {
		return []byte(strings.Repeat(open, k) + inner + strings.Repeat(cl, k))
	}
	switch kind {
	case "ptr-struct", "ptrptr-struct", "omitzero-struct":
		return rep(`{"Next":`, `null`, `}`, n)
	case "map", "map-ptr":
		return rep(`{"a":`, `{}`, `}`, n-1)
	case "map-int-key":
		return rep(`{"7":`, `{}`, `}`, n-1)
	case "slice", "slice-ptr":
		return rep(`[`, `[]`, `]`, n-1)
	case "array-ptr":
		return rep(`[`, `null`, `]`, n)
	case "embedded-ptr":
		return rep(`{"Next":`, `{}`, `}`, n-1)
	case "struct-any", "named-iface":
		return rep(`{"V":`, `null`, `}`, n)
	}
	return nil
}

func deepTarget(kind string) any {
	switch kind {
	case "ptr-struct":
		return new(*tL)
	case "ptrptr-struct":
		return new(tLL)
	case "omitzero-struct":
		return new(tO)
	case "map":
		return new(tM)
	case "map-ptr":
		return new(tMP)
	case "map-int-key":
		return new(tMI)
	case "slice":
		return new(tS)
	case "slice-ptr":
		return new(tSP)
	case "array-ptr":
		return new(tA)
	case "embedded-ptr":
		return new(tE)
	case "struct-any":
		return new(tI)
	case "named-iface":
		return new(tNS)
	}
	return nil
}

func arshalOpts(opt string) []json.Options {
	switch opt {
	case "det":
		return []json.Options{json.Deterministic(true)}
	case "strnum":
		return []json.Options{json.StringifyNumbers(true)}
	case "v1":
		return []json.Options{v1.DefaultOptionsV1()}
	case "multiline":
		return []json.Options{jsontext.Multiline(true), jsontext.WithIndent("")}
	case "nilnull":
		return []json.Options{json.FormatNilSliceAsNull(true), json.FormatNilMapAsNull(true), json.OmitZeroStructFields(true)}
	}
	return nil
}

func runDeep(w *run.W, a *deepArgs) {
	want := a.Depth <= maxDepth
	var err error
	switch a.Op {
	case "marshal":
		v := deepValue(a.Kind, a.Depth)
		if v == nil {
			w.Broken("deep: unknown kind %q", a.Kind)
			return
		}
		switch a.Opt {
		case "write":
			err = json.MarshalWrite(io.Discard, v)
		case "v1func":
			_, err = v1.Marshal(v)
		default:
			_, err = json.Marshal(v, arshalOpts(a.Opt)...)
		}
	case "unmarshal":
		text, tgt := deepText(a.Kind, a.Depth), deepTarget(a.Kind)
		if text == nil || tgt == nil {
			w.Broken("deep: kind %q has no text/target", a.Kind)
			return
		}
		if d := bracketDepth(text); d != a.Depth {
			w.Broken("deep text builder: depth %d, wanted %d", d, a.Depth)
			return
		}
		switch a.Opt {
		case "read":
			err = json.UnmarshalRead(bytes.NewReader(text), tgt)
		case "v1func":
			err = v1.Unmarshal(text, tgt)
		default:
			err = json.Unmarshal(text, tgt, arshalOpts(a.Opt)...)
		}
	default:
		w.Broken("deep: unknown op %q", a.Op)
		return
	}
	accept := err == nil
	w.Eval(1)
	w.Shape(fmt.Sprintf("deep|%s|%d|%s|%s", a.Kind, a.Depth, a.Opt, a.Op))
	if accept {
		w.Count("deep_accept", 1)
	} else {
		w.Count("deep_refuse", 1)
	}
	if accept != want {
		w.Violate("depth-limit", map[string]string{"family": "govalue", "path": a.Op + "/" + a.Kind, "opt": a.Opt, "want_accept": fmt.Sprint(want)},
			"%s of a %s value nested %d deep (opt %q): err=%v, want accept=%v (limit %d)", a.Op, a.Kind, a.Depth, a.Opt, err, want, maxDepth)
	}
}

// ---------------------------------------------------------------------------------
// cycles

type cycleArgs struct {
	Kind string `json:"kind"`
	Pre  int    `json:"pre"`  // acyclic wrapper levels in front of the cycle
	Wrap string `json:"wrap"` // slice | map | struct (kind of the wrapper levels)
	Op   string `json:"op"`   // marshal | unmarshal
	Opt  string `json:"opt"`
}

// cycles that add JSON depth on every turn
var deepCycleKinds = []string{"ptr-struct-self", "ptr-struct-2", "map-self", "slice-self", "array-ptr-self", "any-slice-self", "any-map-self",
	"any-mixed", "struct-any-self", "struct-any-value", "embedded-ptr", "map-value-ptr", "slice-ptr-self", "map-ptr-self", "named-iface-struct", "ptrptr-struct-self"}

// cycles made only of pointers and interfaces: no JSON depth is ever added (F4 / F11)
var flatCycleKinds = []string{"any-ptr-self", "named-ptr-self", "ptr-ptr-any", "any-2cycle", "named-2cycle", "named-iface-ptr", "ptr-any-ptr-ptr",
	// the cycle is reached through a depth-free tail: the head of the chain is not part of it
	"tailed-any-1", "tailed-any-3", "tailed-named-1", "tailed-named-2", "tailed-2cycle"}

func cycleValue(kind string) any {
	switch kind {
	case "ptr-struct-self":
		l := &tL{}
		l.Next = l
		return l
	case "ptr-struct-2":
		a, b := &tL{}, &tL{}
		a.Next, b.Next = b, a
		return a
	case "ptrptr-struct-self":
		l := &tLL{}
		p := l
		l.Next = &p
		return l
	case "map-self":
		m := tM{}
		m["a"] = m
		return m
	case "slice-self":
		s := make(tS, 1)
		s[0] = s
		return s
	case "array-ptr-self":
		a := &tA{}
		a[0] = a
		return a
	case "any-slice-self":
		arr := []any{nil}
		arr[0] = arr
		return arr
	case "any-map-self":
		m := map[string]any{}
		m["x"] = m
		return m
	case "any-mixed":
		m := map[string]any{}
		m["x"] = []any{1.0, m}
		return m
	case "struct-any-self":
		v := &tI{}
		v.V = v
		return v
	case "struct-any-value":
		v := &tI{}
		v.V = tI{V: v}
		return *v
	case "embedded-ptr":
		e := &tE{}
		e.TEin = &TEin{Next: e}
		return e
	case "map-value-ptr":
		n := &tN{M: map[string]*tN{}}
		n.M["k"] = n
		return n
	case "slice-ptr-self":
		s := make(tSP, 1)
		s[0] = &s
		return s
	case "map-ptr-self":
		m := tMP{}
		m["a"] = &m
		return m
	case "named-iface-struct":
		v := &tNS{}
		v.V = v
		return v

	case "any-ptr-self":
		var p any
		p = &p
		return p
	case "named-ptr-self":
		var p tP
		p = &p
		return p
	case "ptr-ptr-any":
		var a any
		pp := &a
		a = &pp
		return a
	case "any-2cycle":
		var a, b any
		a, b = &b, &a
		_ = b
		return a
	case "named-2cycle":
		var q1 tQ1
		var q2 tQ2
		q1, q2 = &q2, &q1
		return q1
	case "named-iface-ptr":
		var i tNI
		i = &i
		return i
	case "tailed-any-1":
		var loop any
		loop = &loop
		var tail any = &loop
		return &tail
	case "tailed-any-3":
		var loop any
		loop = &loop
		var t1 any = &loop
		var t2 any = &t1
		p := &t2
		return &p
	case "tailed-named-1":
		var loop tP
		loop = &loop
		tail := tP(&loop)
		return tP(&tail)
	case "tailed-named-2":
		var loop tP
		loop = &loop
		t1 := tP(&loop)
		t2 := tP(&t1)
		return tP(&t2)
	case "tailed-2cycle":
		var a, b any
		a, b = &b, &a
		var tail any = &a
		return &tail
	case "ptr-any-ptr-ptr":
		var a any
		p1 := &a
		p2 := &p1
		p3 := &p2
		a = p3
		return p1
	}
	return nil
}

func wrapValue(v any, pre int, wrap string) any {
	for i := 0; i < pre; i++ {
		switch wrap {
		case "map":
			v = map[string]any{"w": v}
		case "struct":
			v = &tI{V: v}
		default:
			v = []any{v}
		}
	}
	return v
}

func wrapText(inner string, pre int, wrap string) []byte {
	switch wrap {
	case "map":
		return []byte(strings.Repeat(`{"w":`, pre) + inner + strings.Repeat(`}`, pre))
	case "struct":
		return []byte(strings.Repeat(`{"V":`, pre) + inner + strings.Repeat(`}`, pre))
	}
	return []byte(strings.Repeat(`[`, pre) + inner + strings.Repeat(`]`, pre))
}

func isFlatCycle(kind string) bool {
	for _, k := range flatCycleKinds {
		if k == kind {
			return true
		}
	}
	return false
}

func runCycle(w *run.W, a *cycleArgs) {
	base := cycleValue(a.Kind)
	if base == nil {
		w.Broken("cycle: unknown kind %q", a.Kind)
		return
	}
	v := wrapValue(base, a.Pre, a.Wrap)
	w.Eval(1)
	w.Shape(fmt.Sprintf("cycle|%s|%d|%s|%s|%s", a.Kind, a.Pre, a.Wrap, a.Op, a.Opt))
	sig := map[string]string{"kind": a.Kind, "op": a.Op, "flat": fmt.Sprint(isFlatCycle(a.Kind))}
	switch a.Op {
	case "marshal":
		var err error
		switch a.Opt {
		case "write":
			err = json.MarshalWrite(io.Discard, v)
		case "encode":
			err = json.MarshalEncode(jsontext.NewEncoder(io.Discard), v)
		case "v1func":
			_, err = v1.Marshal(v)
		default:
			_, err = json.Marshal(v, arshalOpts(a.Opt)...)
		}
		if err == nil {
			w.Violate("cycle-no-error", sig, "Marshal of a cyclic %s value (after %d %s levels, opt %q) returned nil error", a.Kind, a.Pre, a.Wrap, a.Opt)
		} else {
			w.Count("cycle_marshal_errors", 1)
		}
	case "unmarshal":
		// The target already holds the cyclic value.  Demanded: the call terminates without a
		// fatal error or panic; it may report an error or replace (part of) the cycle.
		inner := map[string]string{"": `1`, "string": `"x"`, "array": `[1]`, "object": `{"Next":{"Next":null},"V":{"V":1},"a":{"a":{}},"x":{"x":{}},"M":{"k":{"M":{}}}}`, "null": `null`,
			"nested": `[[[1]]]`}[a.Opt]
		text := wrapText(inner, a.Pre, a.Wrap)
		var err error
		switch tv := v.(type) {
		case tP:
			err = json.Unmarshal(text, &tv)
		case tQ1:
			err = json.Unmarshal(text, &tv)
		case tM:
			err = json.Unmarshal(text, &tv)
		case tS:
			err = json.Unmarshal(text, &tv)
		case tSP:
			err = json.Unmarshal(text, &tv)
		case tMP:
			err = json.Unmarshal(text, &tv)
		case tI:
			err = json.Unmarshal(text, &tv)
		default:
			// pointers are passed as they are; everything else through *any
			if isPointer(v) {
				err = json.Unmarshal(text, v)
			} else {
				err = json.Unmarshal(text, &v)
			}
		}
		w.Count("cycle_unmarshal_returned", 1)
		if err != nil {
			w.Count("cycle_unmarshal_errors", 1)
		}
	default:
		w.Broken("cycle: unknown op %q", a.Op)
	}
	w.Count("cycles_survived", 1)
}

func isPointer(v any) bool {
	switch v.(type) {
	case *tL, *tLL, *tA, *tI, *tE, *tN, *tNS, *any, **any, ***any:
		return true
	}
	return false
}

package main

// Depth towers: texts and Go values whose JSON nesting depth is known by construction,
// pushed through every path that enforces the depth limit.  Accept iff depth <= 10000.

import (
	"bytes"
	"fmt"
	"io"
	"os"
	"time"

	json "github.com/go-json-experiment/json"
	"github.com/go-json-experiment/json/jsontext"
	v1 "github.com/go-json-experiment/json/v1"

	"verif/run"
)

const maxDepth = 10000 // from the property statement

type towerArgs struct {
	Depth int    `json:"depth"`
	Mix   string `json:"mix"`   // arr | obj | alt | alt2
	Inner string `json:"inner"` // scalar: Depth containers around 0; empty: the innermost container is empty
	Sib   bool   `json:"sib"`   // every non-empty container has an earlier sibling element/member
	WS    bool   `json:"ws"`    // newline after every structural token
	// Leaf > 0 (Inner=empty only): the innermost empty container of the GO value is a typed one
	// (zero-length array, empty typed slice / map, field-less struct, pointers to those) - same JSON text
	Leaf int `json:"leaf,omitempty"`
}

const nLeaves = 6

func typedLeaf(obj bool, k int) any {
	if obj {
		switch k {
		case 1:
			return map[string]int{}
		case 2:
			return struct{}{}
		case 3:
			return &struct{}{}
		case 4:
			return struct {
				X int `json:",omitzero"`
			}{}
		case 5:
			return map[int]*bool{}
		}
		return &map[string]any{}
	}
	switch k {
	case 1:
		return [0]int{}
	case 2:
		return []int{}
	case 3:
		return &[0]bool{}
	case 4:
		return [0][3]string{}
	case 5:
		return []*[0]int{}
	}
	return &[]any{}
}

func (a *towerArgs) isObj(i int) bool {
	switch a.Mix {
	case "obj":
		return true
	case "alt":
		return i%2 == 0
	case "alt2":
		return i%3 == 1
	}
	return false
}

func (a *towerArgs) emptyLevel(i int) bool { return a.Inner == "empty" && i == a.Depth-1 }

// text returns the JSON text of levels from..Depth-1 (the whole tower for from = 0,
// the bare scalar for from = Depth).
func (a *towerArgs) text(from int) []byte {
	sep := ""
	if a.WS {
		sep = "\n"
	}
	var b []byte
	for i := from; i < a.Depth; i++ {
		if a.isObj(i) {
			b = append(b, '{')
			b = append(b, sep...)
			if !a.emptyLevel(i) {
				if a.Sib {
					b = append(b, `"b":0,`...)
					b = append(b, sep...)
				}
				b = append(b, `"a":`...)
				b = append(b, sep...)
			}
		} else {
			b = append(b, '[')
			b = append(b, sep...)
			if !a.emptyLevel(i) && a.Sib {
				b = append(b, "0,"...)
				b = append(b, sep...)
			}
		}
	}
	if a.Inner == "scalar" {
		b = append(b, '0')
	}
	for i := a.Depth - 1; i >= from; i-- {
		b = append(b, sep...)
		if a.isObj(i) {
			b = append(b, '}')
		} else {
			b = append(b, ']')
		}
	}
	return b
}

// openTokens are the tokens that begin level i up to (excluding) its nested value.
func (a *towerArgs) openTokens(i int) []jsontext.Token {
	var ts []jsontext.Token
	if a.isObj(i) {
		ts = append(ts, jsontext.BeginObject)
		if !a.emptyLevel(i) {
			if a.Sib {
				ts = append(ts, jsontext.String("b"), jsontext.Int(0))
			}
			ts = append(ts, jsontext.String("a"))
		}
	} else {
		ts = append(ts, jsontext.BeginArray)
		if !a.emptyLevel(i) && a.Sib {
			ts = append(ts, jsontext.Int(0))
		}
	}
	return ts
}

func (a *towerArgs) closeToken(i int) jsontext.Token {
	if a.isObj(i) {
		return jsontext.EndObject
	}
	return jsontext.EndArray
}

// goValue builds levels from..Depth-1 as nested []any / map[string]any around inner
// (inner == nil: the tower's own innermost value).  No library code is involved.
func (a *towerArgs) goValue(from int, inner any) any {
	var v any
	if inner != nil {
		v = inner
	} else if a.Inner == "scalar" {
		v = float64(0)
	}
	for i := a.Depth - 1; i >= from; i-- {
		switch {
		case a.emptyLevel(i) && inner == nil && a.Leaf > 0:
			v = typedLeaf(a.isObj(i), a.Leaf)
		case a.emptyLevel(i) && inner == nil && a.isObj(i):
			v = map[string]any{}
		case a.emptyLevel(i) && inner == nil:
			v = []any{}
		case a.isObj(i):
			m := map[string]any{"a": v}
			if a.Sib {
				m["b"] = float64(0)
			}
			v = m
		case a.Sib:
			v = []any{float64(0), v}
		default:
			v = []any{v}
		}
	}
	return v
}

// Typed targets, one per mix (only for Inner=empty, where the shapes fit).
type tS []tS
type tM map[string]tM
type tLa struct {
	A *tLa `json:"a"`
	B int  `json:"b"`
}
type tAlt struct {
	A []tAlt `json:"a"`
	B int    `json:"b"`
}
type tAlt2 []tAlt2o
type tAlt2o struct {
	A [][]tAlt2o `json:"a"`
	B int        `json:"b"`
}

// typedTargets returns fresh pointers to the Go types whose JSON shape is this tower.
func (a *towerArgs) typedTargets() []any {
	if a.Inner != "empty" {
		return nil
	}
	switch a.Mix {
	case "arr":
		if !a.Sib {
			return []any{new(tS), new([]any)}
		}
	case "obj":
		if a.Sib {
			return []any{new(tLa), new(map[string]any)}
		}
		return []any{new(tM), new(tLa), new(map[string]any)}
	case "alt":
		if !a.Sib {
			return []any{new(tAlt)}
		}
	case "alt2":
		if !a.Sib {
			return []any{new(tAlt2)}
		}
	}
	return nil
}

type towerPath struct {
	name string
	plus int // wrapping levels the path adds around the tower (+100: quadratic-cost path, run on a quarter of the deep towers)
	fn   func(a *towerArgs, text []byte) (accept bool)
}

func drainTokens(d *jsontext.Decoder, limit int) bool {
	for i := 0; i <= limit; i++ {
		if _, err := d.ReadToken(); err != nil {
			return err == io.EOF
		}
	}
	return false
}

var towerPaths = []towerPath{
	{"IsValid", 0, func(a *towerArgs, t []byte) bool { return jsontext.Value(t).IsValid() }},
	{"IsValid+opts", 0, func(a *towerArgs, t []byte) bool {
		return jsontext.Value(t).IsValid(jsontext.AllowDuplicateNames(true), jsontext.AllowInvalidUTF8(true))
	}},
	{"ReadValue/reader", 0, func(a *towerArgs, t []byte) bool {
		_, err := jsontext.NewDecoder(bytes.NewReader(t)).ReadValue()
		return err == nil
	}},
	{"ReadValue/buffer", 0, func(a *towerArgs, t []byte) bool {
		_, err := jsontext.NewDecoder(bytes.NewBuffer(bytes.Clone(t))).ReadValue()
		return err == nil
	}},
	{"ReadValue/onebyte", 0, func(a *towerArgs, t []byte) bool {
		_, err := jsontext.NewDecoder(iotestOneByte(t)).ReadValue()
		return err == nil
	}},
	{"SkipValue", 0, func(a *towerArgs, t []byte) bool {
		return jsontext.NewDecoder(bytes.NewReader(t)).SkipValue() == nil
	}},
	{"ReadToken", 0, func(a *towerArgs, t []byte) bool {
		return drainTokens(jsontext.NewDecoder(bytes.NewReader(t)), len(t))
	}},
	{"ReadToken/buffer+dup", 0, func(a *towerArgs, t []byte) bool {
		return drainTokens(jsontext.NewDecoder(bytes.NewBuffer(bytes.Clone(t)), jsontext.AllowDuplicateNames(true)), len(t))
	}},
	{"Value.Format", 0, func(a *towerArgs, t []byte) bool { v := jsontext.Value(bytes.Clone(t)); return v.Format() == nil }},
	{"Value.Format+opts", 100, func(a *towerArgs, t []byte) bool {
		v := jsontext.Value(bytes.Clone(t))
		return v.Format(jsontext.SpaceAfterColon(true), jsontext.SpaceAfterComma(true), jsontext.CanonicalizeRawInts(true), jsontext.ReorderRawObjects(true)) == nil
	}},
	{"Value.Compact", 0, func(a *towerArgs, t []byte) bool { v := jsontext.Value(bytes.Clone(t)); return v.Compact() == nil }},
	{"Value.Indent/empty-indent", 100, func(a *towerArgs, t []byte) bool {
		v := jsontext.Value(bytes.Clone(t))
		return v.Indent(jsontext.WithIndent("")) == nil
	}},
	{"Value.Canonicalize", 0, func(a *towerArgs, t []byte) bool { v := jsontext.Value(bytes.Clone(t)); return v.Canonicalize() == nil }},
	{"AppendFormat", 0, func(a *towerArgs, t []byte) bool { _, err := jsontext.AppendFormat(nil, t); return err == nil }},
	{"AppendFormat/string+multiline", 100, func(a *towerArgs, t []byte) bool {
		_, err := jsontext.AppendFormat([]byte("x"), string(t), jsontext.Multiline(true), jsontext.WithIndent(""))
		return err == nil
	}},
	{"WriteToken", 0, func(a *towerArgs, t []byte) bool {
		return writeTowerTokens(jsontext.NewEncoder(io.Discard), a)
	}},
	{"WriteToken/buffer+multiline", 100, func(a *towerArgs, t []byte) bool {
		return writeTowerTokens(jsontext.NewEncoder(new(bytes.Buffer), jsontext.Multiline(true), jsontext.WithIndent("")), a)
	}},
	{"WriteValue", 0, func(a *towerArgs, t []byte) bool {
		return jsontext.NewEncoder(io.Discard).WriteValue(t) == nil
	}},
	{"WriteValue/buffer+multiline", 100, func(a *towerArgs, t []byte) bool {
		return jsontext.NewEncoder(new(bytes.Buffer), jsontext.Multiline(true), jsontext.WithIndent("")).WriteValue(t) == nil
	}},
	{"WriteValue+reformat", 0, func(a *towerArgs, t []byte) bool {
		return jsontext.NewEncoder(io.Discard, jsontext.SpaceAfterComma(true), jsontext.CanonicalizeRawFloats(true), jsontext.AllowDuplicateNames(true)).WriteValue(t) == nil
	}},
	{"Unmarshal/any", 0, func(a *towerArgs, t []byte) bool { var v any; return json.Unmarshal(t, &v) == nil }},
	{"Unmarshal/any+dup", 0, func(a *towerArgs, t []byte) bool {
		var v any
		return json.Unmarshal(t, &v, jsontext.AllowDuplicateNames(true)) == nil // disables the any fast path
	}},
	{"Unmarshal/Value", 0, func(a *towerArgs, t []byte) bool { var v jsontext.Value; return json.Unmarshal(t, &v) == nil }},
	{"Unmarshal/struct-fields", 1, func(a *towerArgs, t []byte) bool {
		var v struct {
			X any
			R jsontext.Value
		}
		in := append(append(append([]byte(`{"X":`), t...), `,"R":`...), t...)
		in = append(in, '}')
		return json.Unmarshal(in, &v) == nil
	}},
	{"Unmarshal/slice-of-Value", 1, func(a *towerArgs, t []byte) bool {
		var v []jsontext.Value
		in := append(append([]byte(`[`), t...), ']')
		return json.Unmarshal(in, &v) == nil
	}},
	{"Marshal/struct-field", 1, func(a *towerArgs, t []byte) bool {
		_, err := json.Marshal(struct{ X any }{a.goValue(0, nil)})
		return err == nil
	}},
	{"Marshal/map-of-Value", 1, func(a *towerArgs, t []byte) bool {
		_, err := json.Marshal(map[string]jsontext.Value{"k": jsontext.Value(t)})
		return err == nil
	}},
	{"Marshal/ptr-slice-any", 2, func(a *towerArgs, t []byte) bool {
		v := []any{[]jsontext.Value{t}}
		_, err := json.Marshal(&v)
		return err == nil
	}},
	{"UnmarshalRead/any", 0, func(a *towerArgs, t []byte) bool { var v any; return json.UnmarshalRead(bytes.NewReader(t), &v) == nil }},
	{"UnmarshalDecode/any", 0, func(a *towerArgs, t []byte) bool {
		var v any
		return json.UnmarshalDecode(jsontext.NewDecoder(bytes.NewReader(t)), &v) == nil
	}},
	{"v1.Valid", 0, func(a *towerArgs, t []byte) bool { return v1.Valid(t) }},
	{"v1.Compact", 0, func(a *towerArgs, t []byte) bool { return v1.Compact(new(bytes.Buffer), t) == nil }},
	{"v1.Indent", 0, func(a *towerArgs, t []byte) bool { return v1.Indent(new(bytes.Buffer), t, "", "") == nil }},
	{"v1.Unmarshal/any", 0, func(a *towerArgs, t []byte) bool { var v any; return v1.Unmarshal(t, &v) == nil }},
	{"v1.Decoder.Decode", 0, func(a *towerArgs, t []byte) bool { var v any; return v1.NewDecoder(bytes.NewReader(t)).Decode(&v) == nil }},
	{"v1.Decoder.Token", 0, func(a *towerArgs, t []byte) bool {
		d := v1.NewDecoder(bytes.NewReader(t))
		for i := 0; i <= len(t); i++ {
			if _, err := d.Token(); err != nil {
				return err == io.EOF
			}
		}
		return false
	}},
	{"Marshal/any", 0, func(a *towerArgs, t []byte) bool { _, err := json.Marshal(a.goValue(0, nil)); return err == nil }},
	{"Marshal/any+det", 0, func(a *towerArgs, t []byte) bool {
		_, err := json.Marshal(a.goValue(0, nil), json.Deterministic(true))
		return err == nil
	}},
	{"Marshal/any+strnum", 0, func(a *towerArgs, t []byte) bool {
		_, err := json.Marshal(a.goValue(0, nil), json.StringifyNumbers(true)) // disables the any fast path
		return err == nil
	}},
	{"MarshalWrite/any", 0, func(a *towerArgs, t []byte) bool { return json.MarshalWrite(io.Discard, a.goValue(0, nil)) == nil }},
	{"MarshalEncode/any", 0, func(a *towerArgs, t []byte) bool {
		return json.MarshalEncode(jsontext.NewEncoder(io.Discard), a.goValue(0, nil)) == nil
	}},
	{"v1.Marshal/any", 0, func(a *towerArgs, t []byte) bool { _, err := v1.Marshal(a.goValue(0, nil)); return err == nil }},
	{"v1.Encoder.Encode/any", 0, func(a *towerArgs, t []byte) bool { return v1.NewEncoder(io.Discard).Encode(a.goValue(0, nil)) == nil }},
	{"Marshal/Value", 0, func(a *towerArgs, t []byte) bool { _, err := json.Marshal(jsontext.Value(t)); return err == nil }},
	{"Marshal/*Value", 100, func(a *towerArgs, t []byte) bool {
		v := jsontext.Value(t)
		_, err := json.Marshal(&v, jsontext.Multiline(true), jsontext.WithIndent(""))
		return err == nil
	}},
}

func writeTowerTokens(e *jsontext.Encoder, a *towerArgs) bool {
	for i := 0; i < a.Depth; i++ {
		for _, t := range a.openTokens(i) {
			if e.WriteToken(t) != nil {
				return false
			}
		}
	}
	if a.Inner == "scalar" {
		if e.WriteToken(jsontext.Int(0)) != nil {
			return false
		}
	}
	for i := a.Depth - 1; i >= 0; i-- {
		if e.WriteToken(a.closeToken(i)) != nil {
			return false
		}
	}
	return true
}

type oneByteReader struct {
	b []byte
}

func (r *oneByteReader) Read(p []byte) (int, error) {
	if len(r.b) == 0 {
		return 0, io.EOF
	}
	if len(p) == 0 {
		return 0, nil
	}
	p[0] = r.b[0]
	r.b = r.b[1:]
	return 1, nil
}

func iotestOneByte(b []byte) io.Reader { return &oneByteReader{b} }

func (a *towerArgs) shape() string {
	return fmt.Sprintf("%s/%d/%s/sib=%v/ws=%v/leaf=%d", a.Mix, a.Depth, a.Inner, a.Sib, a.WS, a.Leaf)
}

func verdict(w *run.W, family, path string, a *towerArgs, extra string, plus int, accept bool) {
	want := a.Depth+plus <= maxDepth
	w.Eval(1)
	w.Shape(family + "|" + path + "|" + a.shape() + "|" + extra)
	if accept {
		w.Count(family+"_accept", 1)
	} else {
		w.Count(family+"_refuse", 1)
	}
	if a.Depth+plus == maxDepth || a.Depth+plus == maxDepth+1 {
		w.Count(family+"_at_boundary", 1)
	}
	if accept != want {
		w.Violate("depth-limit", map[string]string{"family": family, "path": path, "mix": a.Mix, "inner": a.Inner, "want_accept": fmt.Sprint(want)},
			"%s path %s %s: depth %d+%d (%s) accept=%v, want accept=%v (limit %d)", family, path, extra, a.Depth, plus, a.shape(), accept, want, maxDepth)
	}
}

func runTower(w *run.W, a *towerArgs) {
	if a.Depth < 1 {
		w.Broken("tower depth %d", a.Depth)
		return
	}
	text := a.text(0)
	if d := bracketDepth(text); d != a.Depth {
		w.Broken("tower builder: built depth %d, wanted %d", d, a.Depth)
		return
	}
	w.Count("towers", 1)
	for _, p := range towerPaths {
		if p.plus >= 100 {
			// Multiline output costs O(depth^2) even with an empty indent
			if a.Depth > 1000 && (a.WS || a.Sib) {
				continue
			}
			p.plus -= 100
		}
		t0 := time.Now()
		acc := p.fn(a, text)
		if w.Replay {
			fmt.Fprintf(os.Stderr, "tower path %-34s accept=%-5v %v\n", p.name, acc, time.Since(t0)) // diagnostics only, never in oracles
		}
		verdict(w, "tower", p.name, a, "", p.plus, acc)
	}
	for _, tgt := range a.typedTargets() {
		name := fmt.Sprintf("Unmarshal/%T", tgt)
		err := json.Unmarshal(text, tgt)
		verdict(w, "tower", name, a, "", 0, err == nil)
		if err == nil {
			// the decoded typed value marshals again (relational: same depth by construction)
			_, err = json.Marshal(tgt)
			verdict(w, "tower", "Marshal-of-"+name, a, "", 0, err == nil)
		}
	}
}

// bracketDepth is the maximal nesting of brackets outside strings (independent measure).
func bracketDepth(b []byte) int {
	d, m := 0, 0
	inStr := false
	for i := 0; i < len(b); i++ {
		c := b[i]
		if inStr {
			if c == '\\' {
				i++
			} else if c == '"' {
				inStr = false
			}
			continue
		}
		switch c {
		case '"':
			inStr = true
		case '[', '{':
			d++
			m = max(m, d)
		case ']', '}':
			d--
		}
	}
	return m
}

// ---------------------------------------------------------------------------------
// split: the first K levels are produced/consumed by tokens, the rest by one value call.

type splitArgs struct {
	T    towerArgs `json:"tower"`
	K    int       `json:"k"`
	Side string    `json:"side"`
}

var splitSides = []string{"dec-readvalue", "dec-skipvalue", "enc-writevalue", "marshal-encode", "unmarshal-decode", "marshal-raw", "dec-readvalue/buffer", "enc-writevalue/multiline"}

func runSplit(w *run.W, s *splitArgs) {
	a := &s.T
	maxK := a.Depth
	if a.Inner == "empty" {
		maxK = a.Depth - 1
	}
	if s.K < 0 || s.K > maxK {
		w.Broken("split: k=%d outside 0..%d", s.K, maxK)
		return
	}
	rest := a.text(s.K)
	if d := bracketDepth(rest); d != a.Depth-s.K {
		w.Broken("split builder: rest depth %d, wanted %d", d, a.Depth-s.K)
		return
	}
	w.Count("splits", 1)
	accept := false
	switch s.Side {
	case "dec-readvalue", "dec-skipvalue", "unmarshal-decode", "dec-readvalue/buffer":
		var d *jsontext.Decoder
		if s.Side == "dec-readvalue/buffer" {
			d = jsontext.NewDecoder(bytes.NewBuffer(a.text(0)))
		} else {
			d = jsontext.NewDecoder(bytes.NewReader(a.text(0)))
		}
		accept = func() bool {
			for i := 0; i < s.K; i++ {
				for range a.openTokens(i) {
					if _, err := d.ReadToken(); err != nil {
						return false
					}
				}
			}
			if d.StackDepth() != s.K {
				w.Broken("split: decoder at depth %d after %d levels", d.StackDepth(), s.K)
			}
			switch s.Side {
			case "dec-skipvalue":
				if d.SkipValue() != nil {
					return false
				}
			case "unmarshal-decode":
				var v any
				if json.UnmarshalDecode(d, &v) != nil {
					return false
				}
			default:
				if _, err := d.ReadValue(); err != nil {
					return false
				}
			}
			for i := s.K - 1; i >= 0; i-- {
				if _, err := d.ReadToken(); err != nil {
					return false
				}
			}
			_, err := d.ReadToken()
			return err == io.EOF
		}()
	case "enc-writevalue", "marshal-encode", "enc-writevalue/multiline":
		var e *jsontext.Encoder
		if s.Side == "enc-writevalue/multiline" {
			e = jsontext.NewEncoder(new(bytes.Buffer), jsontext.Multiline(true), jsontext.WithIndent(""))
		} else {
			e = jsontext.NewEncoder(io.Discard)
		}
		accept = func() bool {
			for i := 0; i < s.K; i++ {
				for _, t := range a.openTokens(i) {
					if e.WriteToken(t) != nil {
						return false
					}
				}
			}
			if s.Side == "marshal-encode" {
				if json.MarshalEncode(e, a.goValue(s.K, nil)) != nil {
					return false
				}
			} else if e.WriteValue(rest) != nil {
				return false
			}
			for i := s.K - 1; i >= 0; i-- {
				if e.WriteToken(a.closeToken(i)) != nil {
					return false
				}
			}
			return e.StackDepth() == 0
		}()
	case "marshal-raw":
		// K levels of Go nesting around a raw JSON value holding the remaining levels
		b := *a
		b.Depth = s.K
		b.Inner = "scalar"
		_, err := json.Marshal(b.goValue(0, jsontext.Value(rest)))
		accept = err == nil
	default:
		w.Broken("split: unknown side %q", s.Side)
		return
	}
	verdict(w, "split", s.Side, a, fmt.Sprintf("k=%d", s.K), 0, accept)
}

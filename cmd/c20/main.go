// C20 — resource use is bounded: depth limit 10000/10001 on every path, cycle detection,
// no panics and no non-termination outside the documented API-misuse panics.
package main

import (
	stdjson "encoding/json"
	"fmt"
	"os"
	"runtime/debug"
	"runtime/pprof"

	"verif/run"
)

var M = &run.Monitor{
	ID:    "C20",
	Level: "exploration",
	Rule: "(a) depth towers: texts/Go values with 1..100001 nested containers in 4 array/object mixes x {scalar, empty innermost} x {sibling members} x {whitespace}, " +
		"each through ~50 entry points (token reads, ReadValue, SkipValue, IsValid, Format/Compact/Indent/Canonicalize, AppendFormat, WriteToken replay, WriteValue, " +
		"Unmarshal into any/typed/Value, Marshal of hand-built values, v1 functions); accept iff depth <= 10000. " +
		"(b) splits: first k levels by tokens, rest by one ReadValue/SkipValue/WriteValue/MarshalEncode/UnmarshalDecode/raw Value, k stratified incl. 0,1,9999,10000,10001. " +
		"(c) deep Go values through 17 pointer-like kinds x options, marshal and unmarshal. (d) cyclic Go values: 16 depth-adding kinds and 7 pointer/interface-only kinds, " +
		"starting after 0/1/999/1000/1001 acyclic levels, marshal must return an error, unmarshal into the cycle must return; one case each, run last in dedicated shards. " +
		"(e) the closed list of documented misuse panics, provoked and recovered. (g) a caller-held Encoder/Decoder used again (5 continuation scripts) after MarshalEncode/UnmarshalDecode " +
		"failed or succeeded inside an object: 2 sides x coder AllowDuplicateNames {unset,true,false} x per-call {none,true,false,V1,V2} x 8 value shapes x 7-9 failure kinds. (f) hostile sweep: generated+mutated texts, random encoder call scripts and random " +
		"reflect-built Go values through the whole public API of json, jsontext and v1 under random options, readers and writers, panic/termination monitor only. " +
		"(a') at depth 10000/10001 the innermost empty container of the Go value is one of 6 typed ones (zero-length array, typed slice/map, field-less struct, pointers). " +
		"(h) bounded progress with hostile user unmarshal code. (i) error formatting: 12 fault kinds provoked below paths of hostile member names (empty, 40-130 bytes, multi-byte so that a cut " +
		"falls inside a rune, escaped '/' and '~', ill-formed UTF-8); every error and every wrapped error is formatted (%v %+v %q Error()) and its JSON Pointer taken apart. " +
		"distinct = (family, path, tower shape) for a-d; token-kind skeleton of the text / call skeleton of the script / Go type for f",
	Assumptions: []string{
		"the depth limit 10000 is taken from the property statement; depth of a tower is known by construction and cross-checked by an independent bracket counter",
		"the toolchain's encoding/json (same limit) agrees with the tower builder at 10000/10001 and renders the hand-built deep Go values at the intended depth (self-test)",
		"the list of documented misuse panics is the closed list of DESIGN §4 C20; a panic is attributed to the library when its innermost non-runtime frame is library code",
		"non-termination is detected by the parent watchdog (no journal progress for 180 s quick / 600 s thorough, confirmed by a solitary re-run)",
	},
	Floors: func(c map[string]int64, tier string) []string {
		var u []string
		need := func(k string, n int64) {
			if c[k] < n {
				u = append(u, fmt.Sprintf("%s=%d < %d", k, c[k], n))
			}
		}
		need("tower_accept", 1000)
		need("tower_refuse", 1000)
		need("tower_at_boundary", 500)
		need("split_accept", 100)
		need("split_refuse", 100)
		need("deep_accept", 20)
		need("deep_refuse", 20)
		need("cycle_marshal_errors", 20)
		need("cycle_unmarshal_returned", 5)
		need("misuse_documented_panics", 20)
		need("sweep_texts", 2000)
		need("sweep_texts_wellformed", 200)
		need("sweep_texts_malformed", 200)
		need("sweep_scripts", 500)
		need("sweep_go_types", 100)
		need("sweep_calls_returning_error", 10000)
		need("sweep_calls_returning_nil", 10000)
		need("reuse_cases", 500)
		need("reuse_failed_calls", 200)
		need("reuse_reuse_after_failed_call", 100)
		need("reuse_reuse_after_failed_percall_dupnames", 50)
		need("reuse_reuse_after_successful_call", 50)
		need("reuse_calls_on_reused_coder", 2000)
		need("errtext_errors_formatted", 10000)
		need("errtext_pointer_over_100_bytes", 2000)
		need("errtext_pointer_ends_in_slash", 1000)
		need("errtext_messages_with_shortened_pointer", 1000)
		return u
	},
	SelfTest: selfTest,
}

func selfTest() error {
	// the tower builder and the depth convention against the toolchain's encoding/json (limit 10000 as well)
	for _, mix := range []string{"arr", "obj", "alt", "alt2"} {
		for _, inner := range []string{"scalar", "empty"} {
			for _, sib := range []bool{false, true} {
				for _, d := range []int{1, 2, 7, maxDepth, maxDepth + 1} {
					a := &towerArgs{Depth: d, Mix: mix, Inner: inner, Sib: sib, WS: d%2 == 1}
					t := a.text(0)
					if got := bracketDepth(t); got != d {
						return fmt.Errorf("tower %s: bracket depth %d", a.shape(), got)
					}
					if stdjson.Valid(t) != (d <= maxDepth) {
						return fmt.Errorf("tower %s: encoding/json.Valid = %v", a.shape(), stdjson.Valid(t))
					}
					if d > 7 {
						continue
					}
					for k := 0; k <= d; k++ {
						if inner == "empty" && k == d {
							continue
						}
						if got := bracketDepth(a.text(k)); got != d-k {
							return fmt.Errorf("tower %s rest from %d: bracket depth %d", a.shape(), k, got)
						}
					}
					// the hand-built Go value has the same shape as the text
					b, err := stdjson.Marshal(a.goValue(0, nil))
					if err != nil || bracketDepth(b) != d {
						return fmt.Errorf("tower %s: go value renders as %s (%v)", a.shape(), b, err)
					}
					var x, y any
					if stdjson.Unmarshal(b, &x) != nil || stdjson.Unmarshal(t, &y) != nil || fmt.Sprint(x) != fmt.Sprint(y) {
						return fmt.Errorf("tower %s: go value %s differs from text %s", a.shape(), b, t)
					}
				}
			}
		}
	}
	for _, kind := range deepKinds {
		for _, n := range []int{1, 2, 5, 40} {
			b, err := stdjson.Marshal(deepValue(kind, n))
			if err != nil || bracketDepth(b) != n {
				return fmt.Errorf("deep value %s/%d renders as %s (%v)", kind, n, b, err)
			}
			if t := deepText(kind, n); t != nil {
				if bracketDepth(t) != n || !stdjson.Valid(t) {
					return fmt.Errorf("deep text %s/%d = %s", kind, n, t)
				}
				if err := stdjson.Unmarshal(t, deepTarget(kind)); err != nil {
					return fmt.Errorf("deep text %s/%d does not fit its target: %v", kind, n, err)
				}
			}
		}
	}
	// cyclic values really are cyclic: the toolchain's encoding/json reports an error for each
	for _, kind := range deepCycleKinds {
		if _, err := stdjson.Marshal(cycleValue(kind)); err == nil {
			return fmt.Errorf("cycle kind %s is not cyclic for encoding/json", kind)
		}
	}
	for _, kind := range []string{"any-ptr-self", "ptr-ptr-any", "any-2cycle", "named-iface-ptr", "ptr-any-ptr-ptr"} {
		// (encoding/json itself overflows the stack on the named-pointer kinds; not used as ground truth there)
		if _, err := stdjson.Marshal(cycleValue(kind)); err == nil {
			return fmt.Errorf("cycle kind %s is not cyclic for encoding/json", kind)
		}
	}
	return nil
}

func main() {
	// library panics are recorded with a normalized signature (history, func), never raw panic text
	run.Def(M, "tower", func(w *run.W, a *towerArgs) { guardLib(w, "depth-tower", a.Mix, func() { runTower(w, a) }) })
	run.Def(M, "split", func(w *run.W, a *splitArgs) { guardLib(w, "depth-split", a.Side, func() { runSplit(w, a) }) })
	run.Def(M, "deep", func(w *run.W, a *deepArgs) { guardLib(w, "deep-go-value", a.Op, func() { runDeep(w, a) }) })
	run.Def(M, "cycle", func(w *run.W, a *cycleArgs) { guardLib(w, "cyclic-go-value", a.Op, func() { runCycle(w, a) }) })
	run.Def(M, "misuse", func(w *run.W, a *misuseArgs) { guardLib(w, "after-documented-misuse", "", func() { runMisuse(w, a) }) })
	run.Def(M, "sweep", runSweep)
	run.Def(M, "reuse-after-failed-call", runReuse)
	run.Def(M, "progress", runProgress)
	run.Def(M, "errtext", runErrtext)
	run.Def(M, "padded", runPadded)
	M.Gen = generate
	debug.SetGCPercent(400) // towers allocate tens of MB per path; trade memory (well below 2 GB) for GC time
	if f := os.Getenv("C20_CPUPROFILE"); f != "" { // diagnostics for harness development only
		if fh, err := os.Create(f); err == nil {
			pprof.StartCPUProfile(fh)
			defer pprof.StopCPUProfile()
		}
	}
	run.Main(M)
}

func uniqInts(xs []int, lo, hi int) []int {
	seen := map[int]bool{}
	var out []int
	for _, x := range xs {
		if x < lo || x > hi || seen[x] {
			continue
		}
		seen[x] = true
		out = append(out, x)
	}
	return out
}

func generate(w *run.W) {
	// Cases that may end in a fatal error (cycles made only of pointers and interfaces) are
	// isolated: with >= 8 shards the last four shards run nothing else, so a fatal error
	// there loses no other evidence; with fewer shards they run last in their shard.
	nFatal := 4
	workShards := w.NShards - nFatal
	dedicated := w.NShards >= 8
	if !dedicated {
		workShards = w.NShards
	}
	ci := 0
	mine := func() bool {
		ci++
		return w.Shard < workShards && ci%workShards == w.Shard
	}

	mixes := []string{"arr", "obj", "alt", "alt2"}
	depths := []int{1, 3, 257, 9999, 10000, 10001, 10002, 20000}
	if w.Thorough() {
		depths = append(depths, 2, 1000, 1001, 9997, 9998, 10003, 65536, 100001)
	}

	// (a) towers
	type variant struct {
		inner   string
		sib, ws bool
	}
	variants := []variant{{"scalar", false, false}, {"empty", false, false}, {"scalar", true, true}, {"empty", true, false}, {"scalar", false, true}}
	if w.Thorough() {
		variants = append(variants, variant{"empty", false, true}, variant{"scalar", true, false}, variant{"empty", true, true})
	}
	for _, mix := range mixes {
		for _, d := range depths {
			for _, v := range variants {
				if mine() {
					a := &towerArgs{Depth: d, Mix: mix, Inner: v.inner, Sib: v.sib, WS: v.ws}
					w.Do("tower", a)
					if w.WantSample() && d == 10001 {
						w.Sample(map[string]any{"exec": "tower", "args": a})
					}
				}
			}
		}
	}

	// (a') typed innermost containers of the Go value at the limit
	for _, mix := range mixes {
		for _, d := range []int{maxDepth, maxDepth + 1} {
			for leaf := 1; leaf <= nLeaves; leaf++ {
				if mine() {
					w.Do("tower", &towerArgs{Depth: d, Mix: mix, Inner: "empty", Sib: (leaf+d)%2 == 0, Leaf: leaf})
				}
			}
		}
	}

	// (b) splits
	splitDepths := []int{10000, 10001}
	if w.Thorough() {
		splitDepths = []int{5, 9998, 9999, 10000, 10001, 10002, 10003, 20000}
	}
	for _, mix := range mixes {
		for _, d := range splitDepths {
			for _, inner := range []string{"scalar", "empty"} {
				maxK := d
				if inner == "empty" {
					maxK = d - 1
				}
				ks := uniqInts([]int{0, 1, 2, 4999, 9999, 10000, d - 1, d}, 0, maxK)
				if w.Thorough() {
					ks = append(ks, 3, 9998, 10001, d-2)
					r := w.Rand("split-k", mix, d, inner)
					for i := 0; i < 6; i++ {
						ks = append(ks, r.IntN(maxK+1))
					}
					ks = uniqInts(ks, 0, maxK)
				}
				for _, k := range ks {
					for si, side := range splitSides {
						if mine() {
							sib := (k+si+d)%2 == 0
							a := &splitArgs{T: towerArgs{Depth: d, Mix: mix, Inner: inner, Sib: sib, WS: (k+si)%5 == 0}, K: k, Side: side}
							w.Do("split", a)
						}
					}
				}
			}
		}
	}

	// (c) deep Go values
	deepDepths := []int{10000, 10001}
	if w.Thorough() {
		deepDepths = []int{1, 1000, 1001, 1002, 9998, 9999, 10000, 10001, 10002, 30000}
	}
	for _, kind := range deepKinds {
		for _, d := range deepDepths {
			for oi, opt := range []string{"", "det", "strnum", "v1", "multiline", "nilnull", "write", "v1func"} {
				if !w.Thorough() && oi > 0 && (oi+d+len(kind))%2 == 0 {
					continue
				}
				if mine() {
					w.Do("deep", &deepArgs{Kind: kind, Depth: d, Opt: opt, Op: "marshal"})
				}
			}
			if deepText(kind, 1) != nil {
				for _, opt := range []string{"", "v1", "read", "v1func"} {
					if mine() {
						w.Do("deep", &deepArgs{Kind: kind, Depth: d, Opt: opt, Op: "unmarshal"})
					}
				}
			}
		}
	}

	// (e) documented misuse panics
	for _, c := range misuseCases {
		if mine() {
			w.Do("misuse", &misuseArgs{Name: c.name})
		}
	}

	// (g) reuse of a coder after a failed / successful call with per-call options
	for _, side := range []string{"encoder", "decoder"} {
		fails := reuseEncFails
		if side == "decoder" {
			fails = reuseDecFails
		}
		for _, coderDup := range []string{"unset", "true", "false"} {
			for _, callDup := range []string{"none", "true", "false", "v1", "v2"} {
				for _, value := range reuseValues {
					for fi, fail := range fails {
						for cont := 0; cont < 5; cont++ {
							pre := (cont + fi) % 3
							extra := "none"
							if (cont+fi)%2 == 1 {
								extra = "other"
							}
							if !w.Thorough() && (cont+fi+len(value))%2 == 1 {
								continue
							}
							if mine() {
								w.Do("reuse-after-failed-call", &reuseArgs{Side: side, CoderDup: coderDup, CallDup: callDup, Extra: extra, Value: value, Fail: fail, Cont: cont, Pre: pre})
							}
						}
					}
				}
			}
		}
	}

	// (h) bounded progress with hostile user unmarshal code
	genProgress(w, mine)

	// (i) formatting of errors below hostile paths
	genErrtext(w, mine)

	// (j) values and whitespace runs of every length around the buffer sizes
	genPadded(w, mine)

	// (f) hostile sweep
	type sweepPlan struct {
		mode    string
		batches int
		n       int
	}
	for _, p := range []sweepPlan{
		{"text", w.Pick(144, 2400), 120},
		{"script", w.Pick(96, 1200), 300},
		{"govalue", w.Pick(96, 1000), 40},
	} {
		for b := 0; b < p.batches; b++ {
			if mine() {
				w.Do("sweep", &sweepArgs{Mode: p.mode, Batch: b, N: p.n})
			}
		}
	}

	// (d) cycles — last.  Depth-adding kinds first (ordinary errors expected) ...
	pres := []int{0, 1, 999, 1000, 1001}
	for _, kind := range deepCycleKinds {
		for _, pre := range pres {
			for wi, wrap := range []string{"slice", "map", "struct"} {
				if pre == 0 && wi > 0 {
					continue
				}
				for _, opt := range []string{"", "det", "strnum", "v1", "write", "encode", "v1func"} {
					if !w.Thorough() && (pre+wi+len(opt))%2 == 1 && pre > 1 {
						continue
					}
					if mine() {
						w.Do("cycle", &cycleArgs{Kind: kind, Pre: pre, Wrap: wrap, Op: "marshal", Opt: opt})
					}
				}
			}
		}
		for _, opt := range []string{"", "object", "null", "nested"} {
			for _, pre := range []int{0, 2} {
				if mine() {
					w.Do("cycle", &cycleArgs{Kind: kind, Pre: pre, Wrap: "struct", Op: "unmarshal", Opt: opt})
				}
			}
		}
	}
	// ... then the pointer/interface-only kinds, each family in its own (dedicated) shard
	for _, op := range []string{"marshal", "unmarshal"} {
		for ki, kind := range flatCycleKinds {
			family := 0 // any-based, marshal
			if ki%2 == 1 {
				family = 1 // named-pointer-based
			}
			if op == "unmarshal" {
				family += 2
			}
			shard := w.NShards - 1 - family%w.NShards
			if shard < 0 {
				shard = 0
			}
			if w.Shard != shard {
				continue
			}
			for _, pre := range pres {
				for _, wrap := range []string{"struct", "map", "slice"} {
					if pre == 0 && wrap != "struct" {
						continue
					}
					opts := []string{"", "v1", "strnum", "write", "encode", "v1func"}
					if op == "unmarshal" {
						if wrap == "slice" || pre > 1 {
							continue
						}
						opts = []string{"", "string", "array", "object", "null"}
					}
					for _, opt := range opts {
						w.Do("cycle", &cycleArgs{Kind: kind, Pre: pre, Wrap: wrap, Op: op, Opt: opt})
					}
				}
			}
		}
	}
}

#!/bin/bash
# usage: ./mutant_run.sh <patch.py|patch.diff> <check ids...>     [SUITE=1 to also run the repo's own tests]
# Applies a hand mutant to a scratch copy of /repo and runs the given checks (quick) against it.
. /verif/env.sh
patch=$(realpath "$1"); shift
name=$(basename "$patch" | sed 's/\..*//')
dir=/var/tmp/vmut/$name
rm -rf "$dir"; mkdir -p "$dir"; cp -r /repo "$dir/repo"; rm -rf "$dir/repo/.git"
case "$patch" in
  *.py) (cd "$dir/repo" && python3 "$patch") || { echo "MUTANT $name: PATCH FAILED"; rm -rf "$dir"; exit 2; } ;;
  *) (cd "$dir/repo" && patch -p1 -s < "$patch") || { echo "MUTANT $name: PATCH FAILED"; rm -rf "$dir"; exit 2; } ;;
esac
(cd "$dir/repo" && go build ./... ) || { echo "MUTANT $name: BUILD FAILED"; rm -rf "$dir"; exit 2; }
suite="-"
if [ "${SUITE:-0}" = 1 ]; then
  suite=$(cd "$dir/repo" && go test -count=1 ./... 2>&1 | grep -c "^FAIL\|^--- FAIL")
fi
for id in "$@"; do
  out=$(VERIF_REPO="$dir/repo" VERIF_WORK="$dir/work" VERIF_OUT="$dir/out" /verif/check "$id" ${TIER:-quick} 2>&1)
  rc=$?
  nv=$(echo "$out" | grep -c "^VIOLATION")
  subs=$(echo "$out" | grep -o "sub=[a-z0-9-]*" | sort | uniq -c | tr '\n' ' ')
  echo "MUTANT $name suite_fail=$suite check=$id rc=$rc violations=$nv $subs"
done
rm -rf "$dir"

//go:build verif

// Package hooks adapts the library's verif-tagged instrumentation to the harness.
package hooks

import (
	"io"
	"runtime"

	json "github.com/go-json-experiment/json"
	"github.com/go-json-experiment/json/jsontext"
)

// Available reports whether the library was built with its instrumentation points.
const Available = true

// Snapshot returns the current hook counters.
func Snapshot() map[string]int64 {
	h := &jsontext.Verif
	m := map[string]int64{
		"fetches":             h.Fetches.Load(),
		"fetch_grows":         h.FetchGrows.Load(),
		"fetch_compactions":   h.FetchCompactions.Load(),
		"flushes":             h.Flushes.Load(),
		"flush_partial":       h.FlushPartial.Load(),
		"unwrite_member":      h.UnwriteMember.Load(),
		"unwrite_name":        h.UnwriteName.Load(),
		"unwrite_after_flush": h.UnwriteAfterFlush.Load(),
		"pool_gets":           h.PoolGets.Load(),
		"pool_puts":           h.PoolPuts.Load(),
		"pool_poisoned_bytes": h.PoolPoisonedBytes.Load(),
		"invariant_failures":  h.InvariantFailures.Load(),
	}
	for i := range h.FlushLenBucket {
		if v := h.FlushLenBucket[i].Load(); v > 0 {
			m["flush_fill_eighths_"+string(rune('0'+i))] = v
		}
	}
	names := []string{"lookup_arshaler_miss", "funcs_lookup_miss", "marshal_value_any", "unmarshal_value_any", "interface_reflect_route", "struct_fields_init"}
	for i, n := range names {
		m["point_"+n] = json.VerifPointCount[i].Load()
	}
	return m
}

// EnablePoison makes the coder pools overwrite retained buffers on put.
func EnablePoison(on bool) { jsontext.Verif.Poison.Store(on) }

// SetReport installs the receiver of invariant failures.
func SetReport(f func(kind, msg string)) { jsontext.Verif.Report.Store(&f) }

// SetOnFetch installs the shadow check called after each buffer compaction/growth.
func SetOnFetch(f func(rd io.Reader, baseOffset int64, buf []byte, prevStart, prevEnd int)) {
	if f == nil {
		jsontext.Verif.OnFetch.Store(nil)
		return
	}
	jsontext.Verif.OnFetch.Store(&f)
}

// EnableYield makes first-use points yield the processor (widens first-use races).
func EnableYield(on bool) {
	if !on {
		json.VerifYield.Store(nil)
		return
	}
	f := func(int) { runtime.Gosched() }
	json.VerifYield.Store(&f)
}

// CheckEncoder / CheckDecoder walk the coder's internal stacks.
func CheckEncoder(e *jsontext.Encoder) []string { return jsontext.VerifCheckEncoder(e) }
func CheckDecoder(d *jsontext.Decoder) []string { return jsontext.VerifCheckDecoder(d) }

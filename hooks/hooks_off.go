//go:build !verif

// Package hooks adapts the library's verif-tagged instrumentation to the harness.
// This is the fallback used when the library's hooks are not compiled in.
package hooks

import (
	"io"

	"github.com/go-json-experiment/json/jsontext"
)

const Available = false

func Snapshot() map[string]int64                                                            { return nil }
func EnablePoison(on bool)                                                                  {}
func SetReport(f func(kind, msg string))                                                    {}
func SetOnFetch(f func(rd io.Reader, baseOffset int64, buf []byte, prevStart, prevEnd int)) {}
func EnableYield(on bool)                                                                   {}
func CheckEncoder(e *jsontext.Encoder) []string                                             { return nil }
func CheckDecoder(d *jsontext.Decoder) []string                                             { return nil }

#!/usr/bin/env python3
# validate MANIFEST.json and evidence files against the schemas in /root/.vp
import json, sys, glob
try:
    import jsonschema
except ImportError:
    sys.path.insert(0, '/opt/veriftools/pyvenv/lib/python3.11/site-packages')
    import jsonschema
ok = True
def check(path, schema_path):
    global ok
    try:
        jsonschema.validate(json.load(open(path)), json.load(open(schema_path)))
        print("ok  ", path)
    except Exception as e:
        ok = False
        print("FAIL", path, str(e)[:400])
import os
if os.path.exists('MANIFEST.json'):
    check('MANIFEST.json', '/root/.vp/MANIFEST.schema.json')
for p in sorted(glob.glob('evidence/*.json')):
    check(p, '/root/.vp/EVIDENCE.schema.json')
sys.exit(0 if ok else 1)

package ref

import (
	"strconv"
	"strings"
	"unicode/utf8"
)

// Frame is an open container during prefix analysis.
type Frame struct {
	Obj      bool
	Count    int    // completed elements (array) or completed members (object)
	Name     string // current member name (unescaped) if HasName
	HasName  bool   // name read, value not yet complete
	names    map[string]bool
}

// PrefixInfo describes where a text stops being a viable prefix of a JSON stream of one value.
type PrefixInfo struct {
	Valid     bool // whole input is exactly one valid value (+ws)
	ErrOff    int  // first offset p such that b[:p+1] is not viable; len(b) if truncated (EOF) ; for dup name: start of the dup name
	TokStart  int  // start offset of the lexical token containing ErrOff (or ErrOff itself)
	DelimOff  int  // offset of the comma/colon immediately preceding (modulo ws) the offending token, or -1
	Dup       bool
	DupName   string
	Stack     []Frame // open containers at ErrOff
	InValue   bool   // error inside or at expected start of a value
	EOF       bool
}

func escPtr(s string) string {
	s = strings.ReplaceAll(s, "~", "~0")
	return strings.ReplaceAll(s, "/", "~1")
}

// Pointers returns P (innermost container) and N (current member/element or "" + ok=false).
func (pi *PrefixInfo) Pointers() (P string, N string, hasN bool) {
	var sb strings.Builder
	for i, f := range pi.Stack {
		if i == len(pi.Stack)-1 {
			break
		}
		// the child at position i+1 is the current member/element of frame i
		if f.Obj {
			sb.WriteString("/" + escPtr(f.Name))
		} else {
			sb.WriteString("/" + strconv.Itoa(f.Count))
		}
	}
	P = sb.String()
	if len(pi.Stack) == 0 {
		// top-level
		return "", "", false
	}
	last := pi.Stack[len(pi.Stack)-1]
	if last.Obj {
		if last.HasName {
			return P, P + "/" + escPtr(last.Name), true
		}
		return P, "", false
	}
	if pi.InValue {
		return P, P + "/" + strconv.Itoa(last.Count), true
	}
	return P, "", false
}

type panalyzer struct {
	b     []byte
	i     int
	o     Opts
	stack []Frame
	info  *PrefixInfo
	lastDelim int
}

type perr struct{}

func (a *panalyzer) fail(off, tokStart int, inValue bool) {
	a.info.ErrOff = off
	a.info.TokStart = tokStart
	a.info.InValue = inValue
	a.info.EOF = off >= len(a.b)
	a.info.Stack = append([]Frame(nil), a.stack...)
	a.info.DelimOff = a.lastDelim
	panic(perr{})
}
func (a *panalyzer) ws() {
	for a.i < len(a.b) && (a.b[a.i] == ' ' || a.b[a.i] == '\t' || a.b[a.i] == '\n' || a.b[a.i] == '\r') {
		a.i++
	}
}

// str scans a string token starting at a.i; on failure reports offset of first bad byte.
func (a *panalyzer) str(inValue bool) string {
	start := a.i
	a.i++
	var out []byte
	for {
		if a.i >= len(a.b) {
			a.fail(len(a.b), start, inValue)
		}
		c := a.b[a.i]
		switch {
		case c == '"':
			a.i++
			return string(out)
		case c < 0x20:
			a.fail(a.i, start, inValue)
		case c == '\\':
			es := a.i
			if a.i+1 >= len(a.b) {
				a.fail(len(a.b), start, inValue)
			}
			e := a.b[a.i+1]
			switch e {
			case '"', '\\', '/':
				out = append(out, e)
				a.i += 2
			case 'b':
				out = append(out, '\b')
				a.i += 2
			case 'f':
				out = append(out, '\f')
				a.i += 2
			case 'n':
				out = append(out, '\n')
				a.i += 2
			case 'r':
				out = append(out, '\r')
				a.i += 2
			case 't':
				out = append(out, '\t')
				a.i += 2
			case 'u':
				v := 0
				for k := 0; k < 4; k++ {
					if a.i+2+k >= len(a.b) {
						a.fail(len(a.b), start, inValue)
					}
					h := hex(a.b[a.i+2+k])
					if h < 0 {
						a.fail(es, start, inValue) // escape sequence start.. (impl reports start of escape)
					}
					v = v*16 + h
				}
				a.i += 6
				if v >= 0xD800 && v < 0xDC00 {
					// a high surrogate needs \uDC00-\uDFFF right behind it
					ok := false
					if a.i+6 <= len(a.b) && a.b[a.i] == '\\' && a.b[a.i+1] == 'u' {
						v2 := 0
						good := true
						for k := 0; k < 4; k++ {
							h := hex(a.b[a.i+2+k])
							if h < 0 {
								good = false
								break
							}
							v2 = v2*16 + h
						}
						if good && v2 >= 0xDC00 && v2 < 0xE000 {
							out = utf8.AppendRune(out, rune(0x10000+(v-0xD800)<<10+(v2-0xDC00)))
							a.i += 6
							ok = true
						}
					} else if a.i+6 > len(a.b) && !a.o.AllowInvalidUTF8 {
						// possibly truncated: viable if the rest is a prefix of \uD[C-F]xx
						rem := a.b[a.i:]
						viable := true
						for k, c := range rem {
							switch {
							case k == 0 && c != '\\', k == 1 && c != 'u', k == 2 && c != 'd' && c != 'D':
								viable = false
							case k == 3 && !strings.ContainsRune("cdefCDEF", rune(c)):
								viable = false
							case k >= 4 && hex(c) < 0:
								viable = false
							}
						}
						if viable {
							a.fail(len(a.b), start, inValue)
						}
					}
					if !ok {
						if !a.o.AllowInvalidUTF8 {
							a.fail(es, start, inValue)
						}
						out = append(out, "\ufffd"...)
					}
				} else if v >= 0xDC00 && v < 0xE000 {
					if !a.o.AllowInvalidUTF8 {
						a.fail(es, start, inValue)
					}
					out = append(out, "\ufffd"...)
				} else {
					out = utf8.AppendRune(out, rune(v))
				}
			default:
				a.fail(es, start, inValue)
			}
		case c < 0x80:
			out = append(out, c)
			a.i++
		default:
			rn, n := utf8.DecodeRune(a.b[a.i:])
			if rn == utf8.RuneError && n == 1 {
				if !utf8.FullRune(a.b[a.i:]) {
					a.fail(len(a.b), start, inValue)
				}
				if !a.o.AllowInvalidUTF8 {
					a.fail(a.i, start, inValue)
				}
				out = append(out, "�"...)
				a.i++
			} else {
				out = append(out, a.b[a.i:a.i+n]...)
				a.i += n
			}
		}
	}
}

func (a *panalyzer) value() {
	if a.i >= len(a.b) {
		a.fail(len(a.b), len(a.b), true)
	}
	start := a.i
	switch c := a.b[a.i]; {
	case c == 'n' || c == 't' || c == 'f':
		lit := map[byte]string{'n': "null", 't': "true", 'f': "false"}[c]
		for k := 0; k < len(lit); k++ {
			if a.i+k >= len(a.b) {
				a.fail(len(a.b), start, true)
			}
			if a.b[a.i+k] != lit[k] {
				a.fail(a.i+k, start, true)
			}
		}
		a.i += len(lit)
	case c == '"':
		a.str(true)
	case c == '-' || ('0' <= c && c <= '9'):
		a.num(start)
	case c == '[':
		if len(a.stack) >= a.o.MaxDepth {
			a.fail(a.i, start, true)
		}
		a.i++
		a.stack = append(a.stack, Frame{})
		a.ws()
		if a.i < len(a.b) && a.b[a.i] == ']' {
			a.i++
			a.stack = a.stack[:len(a.stack)-1]
			return
		}
		for {
			a.ws()
			a.value()
			a.stack[len(a.stack)-1].Count++
			a.ws()
			if a.i >= len(a.b) {
				a.fail(len(a.b), len(a.b), false)
			}
			if a.b[a.i] == ',' {
				a.lastDelim = a.i
				a.i++
				a.ws()
				if a.i < len(a.b) {
					// peek: value must start
				}
				continue
			}
			if a.b[a.i] == ']' {
				a.i++
				a.stack = a.stack[:len(a.stack)-1]
				return
			}
			a.fail(a.i, a.i, false)
		}
	case c == '{':
		if len(a.stack) >= a.o.MaxDepth {
			a.fail(a.i, start, true)
		}
		a.i++
		a.stack = append(a.stack, Frame{Obj: true, names: map[string]bool{}})
		a.ws()
		if a.i < len(a.b) && a.b[a.i] == '}' {
			a.i++
			a.stack = a.stack[:len(a.stack)-1]
			return
		}
		for {
			a.ws()
			if a.i >= len(a.b) {
				a.fail(len(a.b), len(a.b), false)
			}
			if a.b[a.i] != '"' {
				a.fail(a.i, a.i, false)
			}
			ns := a.i
			name := a.str(false)
			f := &a.stack[len(a.stack)-1]
			if !a.o.AllowDup {
				if f.names[name] {
					a.info.Dup = true
					a.info.DupName = name
					f.Name, f.HasName = name, true
					a.fail(ns, ns, false)
				}
				f.names[name] = true
			}
			f.Name, f.HasName = name, true
			a.ws()
			if a.i >= len(a.b) {
				a.fail(len(a.b), len(a.b), false)
			}
			if a.b[a.i] != ':' {
				a.fail(a.i, a.i, false)
			}
			a.lastDelim = a.i
			a.i++
			a.ws()
			a.value()
			f = &a.stack[len(a.stack)-1]
			f.HasName = false
			f.Count++
			a.ws()
			if a.i >= len(a.b) {
				a.fail(len(a.b), len(a.b), false)
			}
			if a.b[a.i] == ',' {
				a.lastDelim = a.i
				a.i++
				continue
			}
			if a.b[a.i] == '}' {
				a.i++
				a.stack = a.stack[:len(a.stack)-1]
				return
			}
			a.fail(a.i, a.i, false)
		}
	default:
		a.fail(a.i, a.i, true)
	}
}

func (a *panalyzer) num(start int) {
	digits := func() bool {
		s := a.i
		for a.i < len(a.b) && '0' <= a.b[a.i] && a.b[a.i] <= '9' {
			a.i++
		}
		return a.i > s
	}
	need := func() {
		if a.i >= len(a.b) {
			a.fail(len(a.b), start, true)
		}
		if !digits() {
			a.fail(a.i, start, true)
		}
	}
	if a.b[a.i] == '-' {
		a.i++
	}
	if a.i >= len(a.b) {
		a.fail(len(a.b), start, true)
	}
	if a.b[a.i] == '0' {
		a.i++
	} else if '1' <= a.b[a.i] && a.b[a.i] <= '9' {
		digits()
	} else {
		a.fail(a.i, start, true)
	}
	if a.i < len(a.b) && a.b[a.i] == '.' {
		a.i++
		need()
	}
	if a.i < len(a.b) && (a.b[a.i] == 'e' || a.b[a.i] == 'E') {
		a.i++
		if a.i < len(a.b) && (a.b[a.i] == '+' || a.b[a.i] == '-') {
			a.i++
		}
		need()
	}
}

// Analyze reports validity and, if invalid, the error position information.
func Analyze(b []byte, o Opts) (info PrefixInfo) {
	if o.MaxDepth == 0 {
		o.MaxDepth = 10000
	}
	a := &panalyzer{b: b, o: o, info: &info, lastDelim: -1}
	defer func() {
		if r := recover(); r != nil {
			if _, ok := r.(perr); !ok {
				panic(r)
			}
		}
	}()
	a.ws()
	a.value()
	a.ws()
	if a.i != len(b) {
		a.fail(a.i, a.i, false)
	}
	info.Valid = true
	return info
}

package ref

// Model of the DOCUMENTED struct rules (package doc of the library, section "JSON
// Representation of Go structs") operating on reflect.Type.  It is written from the prose,
// not from fields.go: every embedded struct is searched along EVERY path that reaches it.

import (
	"reflect"
	"sort"
	"strings"
	"unicode"
)

// FieldTag is the documented meaning of a `json` struct tag.
type FieldTag struct {
	Name       string
	HasName    bool
	Ignored    bool // `json:"-"`
	Embed      bool
	OmitZero   bool
	OmitEmpty  bool
	String     bool
	CaseIgnore bool
	CaseStrict bool
}

// ParseFieldTag reads the comma separated option list: the first element is the name
// override, the rest are options; the whole tag "-" means ignored.
func ParseFieldTag(sf reflect.StructField) FieldTag {
	ft := FieldTag{Name: sf.Name}
	tag, ok := sf.Tag.Lookup("json")
	if !ok {
		return ft
	}
	if tag == "-" {
		return FieldTag{Ignored: true}
	}
	parts := strings.Split(tag, ",")
	if parts[0] != "" {
		ft.Name, ft.HasName = parts[0], true
	}
	for _, o := range parts[1:] {
		switch o {
		case "embed":
			ft.Embed = true
		case "omitzero":
			ft.OmitZero = true
		case "omitempty":
			ft.OmitEmpty = true
		case "string":
			ft.String = true
		case "case:ignore":
			ft.CaseIgnore = true
		case "case:strict":
			ft.CaseStrict = true
		}
	}
	return ft
}

// SField is one candidate or selected field.
type SField struct {
	FieldTag
	Index []int // reflect.Value.FieldByIndex path from the root struct
	Type  reflect.Type
	Order int // breadth-first discovery order
	// ViaPtr lists the prefixes of Index that are embedded pointers (nil ⇒ the field is absent when marshaling)
	ViaPtr [][]int
}

func (f *SField) Depth() int { return len(f.Index) }

// Occurrence is one place where an embedded struct type is reached.
type Occurrence struct {
	Type  reflect.Type
	Index []int
}

// StructModel is the documented view of a struct type.
type StructModel struct {
	Fields    []SField // selected fields in depth-first (marshal) order
	All       []SField // every candidate in breadth-first order
	Fallback  *SField  // the embedded fallback that receives unknown members (nil: none or no unique shallowest one)
	Fallbacks []SField
	Invalid   string       // non-empty: the type breaks a documented constraint
	Embedded  []Occurrence // embedded struct occurrences in breadth-first order
	// statistics for evidence
	ByDepth, ByTag, Dropped int
}

func indirectUnnamedPtr(t reflect.Type) (reflect.Type, bool) {
	if t.Kind() == reflect.Pointer && t.Name() == "" {
		return t.Elem(), true
	}
	return t, false
}

// ModelStruct builds the model; rawValue is the library's raw-value type (a fallback kind).
func ModelStruct(root reflect.Type, rawValue reflect.Type) *StructModel {
	return modelStruct(root, rawValue, false)
}

// ModelStructFirstPathQuirk is NOT the oracle: it reproduces known finding F6 (the embedded
// structs of a struct type are searched only below the first place where that type is met,
// although its direct fields are collected at every place).  It is used solely to recognise
// that a deviation from ModelStruct is an instance of that finding and nothing else.
func ModelStructFirstPathQuirk(root reflect.Type, rawValue reflect.Type) *StructModel {
	return modelStruct(root, rawValue, true)
}

func modelStruct(root reflect.Type, rawValue reflect.Type, quirk bool) *StructModel {
	m := &StructModel{}
	type qe struct {
		t        reflect.Type
		index    []int
		viaPtr   [][]int
		chain    []reflect.Type
		children bool
	}
	seen := map[reflect.Type]bool{root: true}
	queue := []qe{{t: root, chain: []reflect.Type{root}, children: true}}
	for qi := 0; qi < len(queue); qi++ {
		e := queue[qi]
		names := map[string]string{}
		nFallback := 0
		for i := 0; i < e.t.NumField(); i++ {
			sf := e.t.Field(i)
			ft := ParseFieldTag(sf)
			if ft.Ignored {
				continue
			}
			if !sf.IsExported() && !sf.Anonymous {
				continue // unexported fields are excluded
			}
			idx := append(append([]int(nil), e.index...), i)
			// "A Go embedded field is implicitly JSON embedded unless an explicit JSON name is specified."
			embed := ft.Embed || (sf.Anonymous && !ft.HasName)
			if embed {
				et, isPtr := indirectUnnamedPtr(sf.Type)
				via := e.viaPtr
				if isPtr {
					via = append(append([][]int(nil), e.viaPtr...), idx)
				}
				switch {
				case et == rawValue || (et.Kind() == reflect.Map && et.Key().Kind() == reflect.String):
					if !sf.IsExported() {
						continue
					}
					nFallback++
					if nFallback > 1 {
						m.Invalid = "more than one embedded fallback in one struct"
					}
					m.Fallbacks = append(m.Fallbacks, SField{FieldTag: ft, Index: idx, Type: sf.Type, ViaPtr: via})
				case et.Kind() == reflect.Struct:
					cyc := false
					for _, c := range e.chain {
						cyc = cyc || c == et
					}
					if cyc {
						continue // recursive embedding: not generated, not modelled
					}
					if quirk {
						if e.children {
							queue = append(queue, qe{t: et, index: idx, viaPtr: via, chain: append(append([]reflect.Type(nil), e.chain...), et), children: !seen[et]})
						}
						seen[et] = true
						continue
					}
					m.Embedded = append(m.Embedded, Occurrence{Type: et, Index: idx})
					queue = append(queue, qe{t: et, index: idx, viaPtr: via, chain: append(append([]reflect.Type(nil), e.chain...), et), children: true})
				default:
					m.Invalid = "embedded field of a kind that cannot be embedded"
				}
				continue
			}
			if !sf.IsExported() {
				continue
			}
			if prev, dup := names[ft.Name]; dup {
				m.Invalid = "fields " + prev + " and " + sf.Name + " of one struct share the JSON name " + ft.Name
			}
			names[ft.Name] = sf.Name
			m.All = append(m.All, SField{FieldTag: ft, Index: idx, Type: sf.Type, Order: len(m.All), ViaPtr: e.viaPtr})
		}
	}
	// dominance: shallowest wins; among several at the shallowest depth exactly one explicitly
	// named field wins; otherwise the name is excluded altogether
	byName := map[string][]SField{}
	var order []string
	for _, f := range m.All {
		if byName[f.Name] == nil {
			order = append(order, f.Name)
		}
		byName[f.Name] = append(byName[f.Name], f)
	}
	for _, name := range order {
		fs := byName[name]
		minDepth := fs[0].Depth()
		for _, f := range fs {
			minDepth = min(minDepth, f.Depth())
		}
		var top, tagged []SField
		for _, f := range fs {
			if f.Depth() == minDepth {
				top = append(top, f)
				if f.HasName {
					tagged = append(tagged, f)
				}
			}
		}
		switch {
		case len(top) == 1:
			m.Fields = append(m.Fields, top[0])
			if len(fs) > 1 {
				m.ByDepth++
			}
		case len(tagged) == 1:
			m.Fields = append(m.Fields, tagged[0])
			m.ByTag++
		default:
			m.Dropped++
		}
	}
	sort.SliceStable(m.Fields, func(i, j int) bool { return indexLess(m.Fields[i].Index, m.Fields[j].Index) })
	// the fallback: the unique shallowest one
	if n := len(m.Fallbacks); n > 0 {
		minDepth, cnt, at := 1<<30, 0, 0
		for i, f := range m.Fallbacks {
			switch d := f.Depth(); {
			case d < minDepth:
				minDepth, cnt, at = d, 1, i
			case d == minDepth:
				cnt++
			}
		}
		if cnt == 1 {
			m.Fallback = &m.Fallbacks[at]
		}
	}
	return m
}

func indexLess(a, b []int) bool {
	for k := 0; k < len(a) && k < len(b); k++ {
		if a[k] != b[k] {
			return a[k] < b[k]
		}
	}
	return len(a) < len(b)
}

// IndexKey renders an index path.
func IndexKey(idx []int) string {
	var sb strings.Builder
	for _, i := range idx {
		sb.WriteByte('.')
		sb.WriteString(itoa(i))
	}
	return sb.String()
}

func itoa(i int) string {
	if i == 0 {
		return "0"
	}
	var b [20]byte
	p := len(b)
	for i > 0 {
		p--
		b[p] = byte('0' + i%10)
		i /= 10
	}
	return string(b[p:])
}

func stripDelims(s string) string {
	if !strings.ContainsAny(s, "_-") {
		return s
	}
	return strings.Map(func(r rune) rune {
		if r == '_' || r == '-' {
			return -1
		}
		return r
	}, s)
}

// FoldEqual is the documented case-insensitive comparison: letter case is ignored and so are
// dashes and underscores (unless strictDelims, the v1 behaviour identical to strings.EqualFold).
func FoldEqual(a, b string, strictDelims bool) bool {
	if !strictDelims {
		a, b = stripDelims(a), stripDelims(b)
	}
	return equalFold(a, b)
}

// equalFold compares rune by rune under Unicode simple case folding (written out rather than
// calling strings.EqualFold so that the self-test has something to compare with).
func equalFold(a, b string) bool {
	ra, rb := []rune(a), []rune(b)
	if len(ra) != len(rb) {
		return false
	}
	for i := range ra {
		if ra[i] == rb[i] {
			continue
		}
		same := false
		for c := unicode.SimpleFold(ra[i]); c != ra[i]; c = unicode.SimpleFold(c) {
			if c == rb[i] {
				same = true
				break
			}
		}
		if !same {
			return false
		}
	}
	return true
}

// Lookup resolves an input member name: an exact match wins; otherwise the fields that match
// case-insensitively (case:ignore, or the caller's option unless case:strict) are candidates;
// exactly one ⇒ that field, several ⇒ ambiguous.
func (m *StructModel) Lookup(name string, optCI, strictDelims bool) (f *SField, ambiguous bool) {
	for i := range m.Fields {
		if m.Fields[i].Name == name {
			return &m.Fields[i], false
		}
	}
	var cands []*SField
	for i := range m.Fields {
		g := &m.Fields[i]
		if (g.CaseIgnore || (optCI && !g.CaseStrict)) && FoldEqual(g.Name, name, strictDelims) {
			cands = append(cands, g)
		}
	}
	switch len(cands) {
	case 0:
		return nil, false
	case 1:
		return cands[0], false
	}
	return nil, true
}

package ref

// C10: exact checker for "shortest round-tripping decimal in ECMA-262 layout", written on
// math/big integers only.  It is a checker, not a generator: it never computes the digits
// itself, it decides whether the digits it is shown have the four required properties.

import (
	"math"
	"math/big"
	"strconv"
)

// NumParts is a JSON number literal taken apart exactly.
type NumParts struct {
	Neg     bool
	Digits  string // significant digits without leading or trailing zeros ("" for zero)
	Exp10   int64  // value = Digits × 10^Exp10
	HasFrac bool
	HasExp  bool
	IntLen  int // digits before the point
	FracLen int
	ExpLen  int
}

// SplitNumber parses lit with the RFC 8259 number grammar (nothing else is accepted).
// Exponents beyond ±10^15 are clamped (they only matter to the magnitude tests of callers).
func SplitNumber(lit string) (p NumParts, ok bool) {
	i := 0
	if i < len(lit) && lit[i] == '-' {
		p.Neg = true
		i++
	}
	s := i
	if i < len(lit) && lit[i] == '0' {
		i++
	} else {
		for i < len(lit) && '0' <= lit[i] && lit[i] <= '9' {
			i++
		}
	}
	if i == s {
		return p, false
	}
	ip := lit[s:i]
	p.IntLen = len(ip)
	fp := ""
	if i < len(lit) && lit[i] == '.' {
		i++
		s = i
		for i < len(lit) && '0' <= lit[i] && lit[i] <= '9' {
			i++
		}
		if i == s {
			return p, false
		}
		fp = lit[s:i]
		p.HasFrac = true
		p.FracLen = len(fp)
	}
	var e int64
	if i < len(lit) && (lit[i] == 'e' || lit[i] == 'E') {
		i++
		eneg := false
		if i < len(lit) && (lit[i] == '+' || lit[i] == '-') {
			eneg = lit[i] == '-'
			i++
		}
		s = i
		for i < len(lit) && '0' <= lit[i] && lit[i] <= '9' {
			if e < 1e15 {
				e = e*10 + int64(lit[i]-'0')
			}
			i++
		}
		if i == s {
			return p, false
		}
		p.HasExp = true
		p.ExpLen = i - s
		if eneg {
			e = -e
		}
	}
	if i != len(lit) {
		return p, false
	}
	d := ip + fp
	e -= int64(len(fp))
	// leading zeros
	j := 0
	for j < len(d) && d[j] == '0' {
		j++
	}
	d = d[j:]
	// trailing zeros
	k := len(d)
	for k > 0 && d[k-1] == '0' {
		k--
		e++
	}
	d = d[:k]
	if d == "" {
		e = 0
	}
	p.Digits, p.Exp10 = d, e
	return p, true
}

// IsIntegerLiteral reports whether lit is `-?(0|[1-9][0-9]*)`.
func IsIntegerLiteral(lit string) bool {
	p, ok := SplitNumber(lit)
	return ok && !p.HasFrac && !p.HasExp
}

// FloatChecker caches the power products it needs; it is not safe for concurrent use.
type FloatChecker struct {
	scale      map[[2]int64]*[2]*big.Int
	pow10      map[int64]*big.Int
	a, b       big.Int
	w          big.Int
	lo, hi, xu big.Int
	dig        []byte // significant digits of the text under test
	lay        []byte // expected layout
	// K is the number of significant digits of the last text checked.
	K int
	// Ties counts cases where two equally long candidates were equally close.
	Ties int64
}

func NewFloatChecker() *FloatChecker {
	return &FloatChecker{scale: map[[2]int64]*[2]*big.Int{}, pow10: map[int64]*big.Int{}}
}

func (c *FloatChecker) p10(n int64) *big.Int {
	if v, ok := c.pow10[n]; ok {
		return v
	}
	v := new(big.Int).Exp(big.NewInt(10), big.NewInt(n), nil)
	c.pow10[n] = v
	return v
}

// scales returns T, U with  x·2^e2 <=> y·10^g   iff   x·T <=> y·U.
func (c *FloatChecker) scales(e2, g int64) (T, U *big.Int) {
	key := [2]int64{e2, g}
	if v, ok := c.scale[key]; ok {
		return v[0], v[1]
	}
	if len(c.scale) > 20000 {
		c.scale = map[[2]int64]*[2]*big.Int{}
	}
	T, U = big.NewInt(1), big.NewInt(1)
	if e2 > 0 {
		T = new(big.Int).Lsh(T, uint(e2))
	} else if e2 < 0 {
		U = new(big.Int).Lsh(U, uint(-e2))
	}
	if g > 0 {
		U = new(big.Int).Mul(U, c.p10(g))
	} else if g < 0 {
		T = new(big.Int).Mul(T, c.p10(-g))
	}
	c.scale[key] = &[2]*big.Int{T, U}
	return T, U
}

// Decompose returns the finite non-negative float |f| of the given precision as
// m·2^e with the flag that its lower neighbour is only half a gap away.
func Decompose(f float64, bits int) (m uint64, e int64, lowerCloser bool, ok bool) {
	f = math.Abs(f)
	if math.IsNaN(f) || math.IsInf(f, 0) {
		return 0, 0, false, false
	}
	if bits == 32 {
		f32 := float32(f)
		if float64(f32) != f || math.IsInf(float64(f32), 0) {
			return 0, 0, false, false
		}
		b := math.Float32bits(f32)
		ex, fr := int64(b>>23&0xff), uint64(b&(1<<23-1))
		if ex == 0 {
			return fr, -149, false, true
		}
		return fr | 1<<23, ex - 150, fr == 0 && ex > 1, true
	}
	b := math.Float64bits(f)
	ex, fr := int64(b>>52&0x7ff), b&(1<<52-1)
	if ex == 0 {
		return fr, -1074, false, true
	}
	return fr | 1<<52, ex - 1075, fr == 0 && ex > 1, true
}

// appendLayout appends ECMA-262 Number::toString's layout (steps 6–10 of 6.1.6.1.20) of the
// digits d (no leading/trailing zeros) with the decimal point position n (value = 0.d × 10^n).
func appendLayout(dst, d []byte, n int64) []byte {
	k := int64(len(d))
	zeros := func(dst []byte, z int64) []byte {
		for ; z > 0; z-- {
			dst = append(dst, '0')
		}
		return dst
	}
	switch {
	case k <= n && n <= 21:
		return zeros(append(dst, d...), n-k)
	case 0 < n && n <= 21:
		dst = append(dst, d[:n]...)
		dst = append(dst, '.')
		return append(dst, d[n:]...)
	case -6 < n && n <= 0:
		dst = append(dst, '0', '.')
		return append(zeros(dst, -n), d...)
	}
	e := n - 1
	dst = append(dst, d[0])
	if k > 1 {
		dst = append(dst, '.')
		dst = append(dst, d[1:]...)
	}
	dst = append(dst, 'e')
	if e < 0 {
		dst = append(dst, '-')
		e = -e
	} else {
		dst = append(dst, '+')
	}
	return strconv.AppendInt(dst, e, 10)
}

// scan parses s with the RFC 8259 number grammar into c.dig (significant digits, no
// leading/trailing zeros) and the decimal exponent of the last kept digit.
func (c *FloatChecker) scan(s []byte) (neg bool, exp10 int64, ok bool) {
	c.dig = c.dig[:0]
	i := 0
	if i < len(s) && s[i] == '-' {
		neg = true
		i++
	}
	st := i
	if i < len(s) && s[i] == '0' {
		i++
	} else {
		for i < len(s) && '0' <= s[i] && s[i] <= '9' {
			i++
		}
	}
	if i == st {
		return neg, 0, false
	}
	c.dig = append(c.dig, s[st:i]...)
	var e int64
	if i < len(s) && s[i] == '.' {
		i++
		st = i
		for i < len(s) && '0' <= s[i] && s[i] <= '9' {
			i++
		}
		if i == st {
			return neg, 0, false
		}
		c.dig = append(c.dig, s[st:i]...)
		e = -int64(i - st)
	}
	if i < len(s) && (s[i] == 'e' || s[i] == 'E') {
		i++
		eneg := false
		if i < len(s) && (s[i] == '+' || s[i] == '-') {
			eneg = s[i] == '-'
			i++
		}
		st = i
		var x int64
		for i < len(s) && '0' <= s[i] && s[i] <= '9' {
			if x < 1e15 {
				x = x*10 + int64(s[i]-'0')
			}
			i++
		}
		if i == st {
			return neg, 0, false
		}
		if eneg {
			x = -x
		}
		e += x
	}
	if i != len(s) {
		return neg, 0, false
	}
	j := 0
	for j < len(c.dig) && c.dig[j] == '0' {
		j++
	}
	c.dig = c.dig[j:]
	for len(c.dig) > 0 && c.dig[len(c.dig)-1] == '0' {
		c.dig = c.dig[:len(c.dig)-1]
		e++
	}
	return neg, e, true
}

// Check decides whether s is what the property demands for the finite float f of the
// given precision.  It returns "" or the name of the first clause that fails:
//
//	grammar       s is not a JSON number
//	sign          sign of s differs from the sign of f (−0 must stay −0)
//	layout        s is not ECMA-262 Number::toString's layout of its own digits/exponent
//	roundtrip     the exact value of s does not round (nearest, ties to even) to f
//	not-shortest  a decimal with fewer significant digits also rounds to f
//	not-closest   another decimal with as many digits rounds to f and is strictly closer to f
func (c *FloatChecker) Check(f float64, bits int, s string) string {
	return c.CheckBytes(f, bits, []byte(s))
}

// CheckBytes is Check on a byte slice (not retained, not modified).
func (c *FloatChecker) CheckBytes(f float64, bits int, s []byte) string {
	neg, g, ok := c.scan(s)
	if !ok {
		return "grammar"
	}
	if neg != math.Signbit(f) {
		return "sign"
	}
	m, e, lowerCloser, ok := Decompose(f, bits)
	if !ok {
		return "domain"
	}
	k := int64(len(c.dig))
	c.K = int(k)
	if m == 0 {
		if k != 0 {
			return "roundtrip"
		}
		if string(s) != "0" && string(s) != "-0" {
			return "layout"
		}
		return ""
	}
	if k == 0 {
		return "roundtrip"
	}
	c.lay = c.lay[:0]
	if neg {
		c.lay = append(c.lay, '-')
	}
	c.lay = appendLayout(c.lay, c.dig, g+k)
	if string(c.lay) != string(s) {
		return "layout"
	}
	if k > 19 {
		return "not-shortest" // 17 digits always suffice
	}
	if g > 400 || g < -400 {
		return "roundtrip"
	}
	var D uint64
	for _, ch := range c.dig {
		D = D*10 + uint64(ch-'0')
	}
	T, U := c.scales(e-2, g)
	mf := 4 * m
	mlo := mf - 2
	if lowerCloser {
		mlo = mf - 1
	}
	incl := m%2 == 0
	// rounding interval of f in scaled units: [mlo·T, (mf+2)·T], closed iff the mantissa is even
	c.w.SetUint64(mlo)
	c.lo.Mul(T, &c.w)
	c.w.SetUint64(mf + 2)
	c.hi.Mul(T, &c.w)
	inside := func(x uint64) bool {
		c.w.SetUint64(x)
		c.xu.Mul(U, &c.w)
		if r := c.xu.Cmp(&c.lo); r < 0 || (r == 0 && !incl) {
			return false
		}
		if r := c.xu.Cmp(&c.hi); r > 0 || (r == 0 && !incl) {
			return false
		}
		return true
	}
	if k >= 2 {
		c1 := D / 10 * 10
		if inside(c1) || inside(c1+10) {
			if inside(D) {
				return "not-shortest"
			}
			return "roundtrip"
		}
	}
	if !inside(D) { // leaves D·U in c.xu
		return "roundtrip"
	}
	// distance of s from f against half a unit of the last digit of s
	c.w.SetUint64(mf)
	c.a.Mul(T, &c.w)
	c.a.Sub(&c.a, &c.xu) // f - s in scaled units
	sg := c.a.Sign()
	if sg != 0 {
		c.a.Abs(&c.a)
		c.a.Lsh(&c.a, 1)
		switch c.a.Cmp(U) {
		case 0:
			c.Ties++
		case 1:
			nb := D + 1
			if sg < 0 {
				nb = D - 1
			}
			if inside(nb) {
				return "not-closest"
			}
		}
	}
	return ""
}

// Midpoint returns the exact decimal expansion of the midpoint between the finite
// non-negative float |f| and its upper neighbour (a finite decimal, up to ~1100 digits).
func Midpoint(f float64, bits int) (string, bool) {
	m, e, _, ok := Decompose(f, bits)
	if !ok {
		return "", false
	}
	// (2m+1)·2^(e-1)
	n := new(big.Int).SetUint64(2*m + 1)
	e1 := e - 1
	if e1 >= 0 {
		n.Lsh(n, uint(e1))
		return n.String(), true
	}
	// n / 2^-e1 = n·5^-e1 / 10^-e1
	n.Mul(n, new(big.Int).Exp(big.NewInt(5), big.NewInt(-e1), nil))
	d := n.String()
	sh := int(-e1)
	if len(d) <= sh {
		z := make([]byte, sh-len(d)+1)
		for i := range z {
			z[i] = '0'
		}
		d = string(z) + d
	}
	ip, fp := d[:len(d)-sh], d[len(d)-sh:]
	// trim trailing zeros of the fraction (there are none: n·5^k is odd·5^k, never ≡ 0 mod 10)
	return ip + "." + fp, true
}

// MidpointLiterals returns three literals for the gap above |f|: the exact midpoint (a tie,
// to be rounded to even), and decimals a hair above and a hair below it.
func MidpointLiterals(f float64, bits int) []string {
	m, ok := Midpoint(f, bits)
	if !ok {
		return nil
	}
	for i := 0; i < len(m); i++ {
		if m[i] == '.' {
			// the fraction of odd·5^k / 10^k ends in 5
			return []string{m, m + "0000000001", m[:len(m)-1] + "4999999999"}
		}
	}
	n, _ := new(big.Int).SetString(m, 10)
	below := new(big.Int).Sub(n, big.NewInt(1))
	return []string{m, m + ".0000000001", below.String() + ".9999999999"}
}

package ref

import (
	"strconv"
	"strings"
)

// Level is one entry of the container stack after a token: kind '{', '[' or 0 (top
// level) and the number of names/values read inside it so far (names and values counted
// separately for objects, a nested container counted from its opening token on), as
// documented for StackIndex ("length decoded so far") and required by StackPointer
// (an array element being read has index length-1).
type Level struct {
	Kind byte
	Len  int64
}

// Tok is one token of a JSON stream with the state an independent parse assigns
// to the position right after it.
type Tok struct {
	Kind       byte // 'n' 't' 'f' '"' '0' '{' '}' '[' ']'
	Start, End int
	Str        string // unescaped meaning of a string token
	IsName     bool
	Depth      int     // StackDepth after the token
	Stack      []Level // levels 0..Depth after the token
	Pointer    string  // RFC 6901 pointer to the most recently read value
	ValueStart int     // for a token that completes a value: start offset of that value (else -1)
}

type sframe struct {
	obj      bool
	n        int64
	name     string // last name read
	names    map[string]bool
	start    int
}

// Tokenize splits a stream of JSON values into tokens up to the first error.
// errOff is -1 when the whole input is a valid stream (complete=true when it also ends
// at a value boundary, i.e. at depth 0).
func Tokenize(b []byte, o Opts) (toks []Tok, errOff int, complete bool) {
	return tokenize(b, o, false)
}

// TokenizeFull is Tokenize that also fills Stack and Pointer of every token
// (quadratic in the nesting depth; not for depth towers).
func TokenizeFull(b []byte, o Opts) (toks []Tok, errOff int, complete bool) {
	return tokenize(b, o, true)
}

func tokenize(b []byte, o Opts, full bool) (toks []Tok, errOff int, complete bool) {
	if o.MaxDepth == 0 {
		o.MaxDepth = 10000
	}
	var stack []sframe
	top := int64(0)
	i := 0
	ws := func() {
		for i < len(b) && (b[i] == ' ' || b[i] == '\t' || b[i] == '\n' || b[i] == '\r') {
			i++
		}
	}
	emit := func(k byte, s, e int, str string, isName bool, vstart int) {
		t := Tok{Kind: k, Start: s, End: e, Str: str, IsName: isName, Depth: len(stack), ValueStart: vstart}
		if !full {
			toks = append(toks, t)
			return
		}
		t.Stack = make([]Level, 0, len(stack)+1)
		t.Stack = append(t.Stack, Level{0, top})
		var sb strings.Builder
		for li, f := range stack {
			kind := byte('[')
			if f.obj {
				kind = '{'
			}
			t.Stack = append(t.Stack, Level{kind, f.n})
			if li == len(stack)-1 && f.n == 0 {
				break
			}
			if f.obj {
				sb.WriteString("/" + EscapePointerToken(f.name))
			} else {
				sb.WriteString("/" + strconv.FormatInt(f.n-1, 10))
			}
		}
		t.Pointer = sb.String()
		toks = append(toks, t)
	}
	// valueDone accounts a completed value in the parent
	valueDone := func() {
		if len(stack) == 0 {
			top++
		} else {
			stack[len(stack)-1].n++
		}
	}
	for {
		ws()
		if i >= len(b) {
			return toks, -1, len(stack) == 0
		}
		c := b[i]
		var f *sframe
		if len(stack) > 0 {
			f = &stack[len(stack)-1]
		}
		// closers
		if c == '}' || c == ']' {
			if f == nil || (c == '}') != f.obj || (f.obj && f.n%2 == 1) {
				return toks, i, false
			}
			st := f.start
			stack = stack[:len(stack)-1]
			i++
			emit(c, i-1, i, "", false, st)
			continue
		}
		// separators
		if f != nil {
			switch {
			case f.obj && f.n%2 == 1:
				if c != ':' {
					return toks, i, false
				}
				i++
				ws()
			case f.n > 0:
				if c != ',' {
					return toks, i, false
				}
				i++
				ws()
			}
			if i >= len(b) {
				return toks, -1, false
			}
			c = b[i]
		}
		needName := f != nil && f.obj && f.n%2 == 0
		start := i
		switch {
		case needName && c != '"':
			return toks, i, false
		case c == '"':
			p := &parser{b: b, i: i, o: o}
			s, ok := p.str()
			if !ok {
				return toks, i, false
			}
			if needName {
				if !o.AllowDup {
					if f.names == nil {
						f.names = map[string]bool{}
					}
					if f.names[s] {
						return toks, i, false
					}
					f.names[s] = true
				}
				f.name = s
				f.n++
				i = p.i
				emit('"', start, i, s, true, -1)
				continue
			}
			i = p.i
			valueDone()
			emit('"', start, i, s, false, start)
		case c == 'n' || c == 't' || c == 'f':
			lit := map[byte]string{'n': "null", 't': "true", 'f': "false"}[c]
			if !strings.HasPrefix(string(b[i:min(len(b), i+len(lit))]), lit) {
				return toks, i, false
			}
			i += len(lit)
			valueDone()
			emit(c, start, i, "", false, start)
		case c == '-' || ('0' <= c && c <= '9'):
			p := &parser{b: b, i: i, o: o}
			if !p.num() {
				return toks, i, false
			}
			i = p.i
			valueDone()
			emit('0', start, i, "", false, start)
		case c == '{' || c == '[':
			if len(stack) >= o.MaxDepth {
				return toks, i, false
			}
			i++
			valueDone() // a container counts in its parent as soon as it begins
			stack = append(stack, sframe{obj: c == '{', start: start})
			emit(c, start, i, "", false, -1)
		default:
			return toks, i, false
		}
	}
}

// StreamValid reports whether b is a concatenation of ≥ minValues valid JSON texts
// separated by optional whitespace, and how many there are.
func StreamValid(b []byte, o Opts) (n int, ok bool) {
	toks, errOff, complete := Tokenize(b, o)
	if errOff >= 0 || !complete {
		return 0, false
	}
	for _, t := range toks {
		if t.Depth == 0 && t.ValueStart >= 0 {
			n++
		}
	}
	return n, true
}

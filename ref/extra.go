package ref

import (
	"math"
	"math/big"
	"sort"
	"strconv"
	"strings"
	"unicode/utf16"
	"unicode/utf8"
)

// ---------------------------------------------------------------------------------
// strings

// QuoteOpts selects the escape variants of Quote.
type QuoteOpts struct{ HTML, JS bool }

// Sanitize replaces each ill-formed UTF-8 byte by U+FFFD.
func Sanitize(s string) string {
	if utf8.ValidString(s) {
		return s
	}
	var out []byte
	for i := 0; i < len(s); {
		r, n := utf8.DecodeRuneInString(s[i:])
		if r == utf8.RuneError && n == 1 {
			out = append(out, "�"...)
		} else {
			out = append(out, s[i:i+n]...)
		}
		i += n
	}
	return string(out)
}

// Quote is the minimal JSON string literal of RFC 8785 §3.2.2.2 for s (which must be
// valid UTF-8; ill-formed bytes are replaced first), with the HTML/JS escape variants.
func Quote(s string, o QuoteOpts) string {
	const hexd = "0123456789abcdef"
	s = Sanitize(s)
	out := []byte{'"'}
	for _, r := range s {
		switch {
		case r == '"' || r == '\\':
			out = append(out, '\\', byte(r))
		case r == '\b':
			out = append(out, `\b`...)
		case r == '\f':
			out = append(out, `\f`...)
		case r == '\n':
			out = append(out, `\n`...)
		case r == '\r':
			out = append(out, `\r`...)
		case r == '\t':
			out = append(out, `\t`...)
		case r < 0x20:
			out = append(out, '\\', 'u', '0', '0', hexd[r>>4], hexd[r&15])
		case o.HTML && (r == '<' || r == '>' || r == '&'):
			out = append(out, '\\', 'u', '0', '0', hexd[r>>4], hexd[r&15])
		case o.JS && (r == 0x2028 || r == 0x2029):
			out = append(out, '\\', 'u', '2', '0', '2', hexd[r&15])
		default:
			out = utf8.AppendRune(out, r)
		}
	}
	return string(append(out, '"'))
}

// Unquote returns the RFC 8259 meaning of a JSON string literal (with U+FFFD for each
// ill-formed byte / unpaired surrogate escape when allowInvalid), ok=false if the
// literal is not valid.
func Unquote(lit []byte, allowInvalid bool) (string, bool) {
	p := &parser{b: lit, o: Opts{AllowInvalidUTF8: allowInvalid}}
	s, ok := p.str()
	if !ok || p.i != len(lit) {
		return "", false
	}
	return s, true
}

// U16Less orders strings by their UTF-16 code units (RFC 8785 §3.2.3).
func U16Less(a, b string) bool {
	x, y := utf16.Encode([]rune(a)), utf16.Encode([]rune(b))
	for i := 0; i < len(x) && i < len(y); i++ {
		if x[i] != y[i] {
			return x[i] < y[i]
		}
	}
	return len(x) < len(y)
}

// ---------------------------------------------------------------------------------
// numbers

// Rat returns the exact rational value of a JSON number literal.
func Rat(lit string) *big.Rat {
	// big.Rat.SetString accepts the JSON grammar as a subset; huge exponents are
	// handled by the caller (Float64) analytically.
	r, ok := new(big.Rat).SetString(lit)
	if !ok {
		return nil
	}
	return r
}

// splitNum splits a JSON number literal into sign, digit string without leading zeros,
// and decimal exponent such that value = digits * 10^exp.
func splitNum(lit string) (neg bool, digits string, exp int64, ok bool) {
	s := lit
	if strings.HasPrefix(s, "-") {
		neg = true
		s = s[1:]
	}
	mant := s
	var e int64
	if i := strings.IndexAny(s, "eE"); i >= 0 {
		mant = s[:i]
		es := s[i+1:]
		// cap absurd exponents
		esn := strings.TrimLeft(strings.TrimLeft(es, "+-"), "0")
		if len(esn) > 9 {
			if strings.HasPrefix(es, "-") {
				e = -1 << 40
			} else {
				e = 1 << 40
			}
		} else {
			v, err := strconv.ParseInt(es, 10, 64)
			if err != nil {
				return false, "", 0, false
			}
			e = v
		}
	}
	ip, fp, _ := strings.Cut(mant, ".")
	d := ip + fp
	e -= int64(len(fp))
	d = strings.TrimLeft(d, "0")
	return neg, d, e, true
}

// Float returns the correctly rounded (nearest-even) float of the given bit size for
// a JSON number literal, and whether the magnitude overflows that size.
func Float(lit string, bits int) (f float64, overflow bool) {
	neg, d, e, ok := splitNum(lit)
	if !ok {
		return math.NaN(), false
	}
	sign := 1.0
	if neg {
		sign = -1
	}
	if d == "" {
		return sign * 0, false
	}
	// magnitude estimate: value in [10^(len(d)-1+e), 10^(len(d)+e))
	hi := int64(len(d)) + e
	if hi > 400 {
		return sign * math.Inf(1), true
	}
	if hi < -400 {
		return sign * 0, false
	}
	// trailing zeros of d do not matter for big.Rat; bound the size of the literal handled exactly
	r := new(big.Rat)
	di, _ := new(big.Int).SetString(d, 10)
	if e >= 0 {
		p := new(big.Int).Exp(big.NewInt(10), big.NewInt(e), nil)
		r.SetInt(di.Mul(di, p))
	} else {
		p := new(big.Int).Exp(big.NewInt(10), big.NewInt(-e), nil)
		r.SetFrac(di, p)
	}
	if bits == 32 {
		f32, _ := r.Float32()
		f = float64(f32)
	} else {
		f, _ = r.Float64()
	}
	if math.IsInf(f, 0) {
		return sign * math.Inf(1), true
	}
	return sign * f, false
}

// ES6 lays out a finite float64 per ECMA-262 Number::toString (shortest digits from
// strconv, which is independent of the library under test); -0 is printed as "0".
func ES6(f float64) string { return es6Layout(f, 64) }

// ES6Bits is ES6 for a value that is to be formatted with the given precision.
func ES6Bits(f float64, bits int) string { return es6Layout(f, bits) }

func es6Layout(f float64, bits int) string {
	if f == 0 {
		return "0"
	}
	s := strconv.FormatFloat(math.Abs(f), 'e', -1, bits)
	mant, exp, _ := strings.Cut(s, "e")
	e, _ := strconv.Atoi(exp)
	d := strings.TrimRight(strings.Replace(mant, ".", "", 1), "0")
	if d == "" {
		d = "0"
	}
	r := LayoutES6(d, e+1)
	if f < 0 {
		r = "-" + r
	}
	return r
}

// LayoutES6 lays out digits d (no trailing zeros) with decimal point position n
// (value = 0.d × 10^n) per ECMA-262 7.1.6.1 steps 6–10.
func LayoutES6(d string, n int) string {
	k := len(d)
	switch {
	case k <= n && n <= 21:
		return d + strings.Repeat("0", n-k)
	case 0 < n && n <= 21:
		return d[:n] + "." + d[n:]
	case -6 < n && n <= 0:
		return "0." + strings.Repeat("0", -n) + d
	}
	ee := n - 1
	sg := "+"
	if ee < 0 {
		sg, ee = "-", -ee
	}
	if k == 1 {
		return d + "e" + sg + strconv.Itoa(ee)
	}
	return d[:1] + "." + d[1:] + "e" + sg + strconv.Itoa(ee)
}

// ---------------------------------------------------------------------------------
// trees

// Canonicalize is an independent RFC 8785 serializer of a parsed tree.
func Canonicalize(n *Node) []byte {
	var sb strings.Builder
	canon(n, &sb)
	return []byte(sb.String())
}

func canon(n *Node, sb *strings.Builder) {
	switch n.Kind {
	case Null:
		sb.WriteString("null")
	case Bool:
		sb.WriteString(strconv.FormatBool(n.B))
	case Number:
		f, over := Float(n.Raw, 64)
		if over {
			f = math.Copysign(math.MaxFloat64, f)
		}
		sb.WriteString(ES6(f))
	case String:
		sb.WriteString(Quote(n.S, QuoteOpts{}))
	case Array:
		sb.WriteByte('[')
		for i, e := range n.Elems {
			if i > 0 {
				sb.WriteByte(',')
			}
			canon(e, sb)
		}
		sb.WriteByte(']')
	case Object:
		ms := append([]Member(nil), n.Members...)
		sort.SliceStable(ms, func(i, j int) bool { return U16Less(ms[i].Name, ms[j].Name) })
		sb.WriteByte('{')
		for i, m := range ms {
			if i > 0 {
				sb.WriteByte(',')
			}
			sb.WriteString(Quote(m.Name, QuoteOpts{}))
			sb.WriteByte(':')
			canon(m.Value, sb)
		}
		sb.WriteByte('}')
	}
}

// Compact serializes a tree with raw spellings kept and no whitespace.
func Compact(n *Node) []byte {
	var sb strings.Builder
	compact(n, &sb)
	return []byte(sb.String())
}

func compact(n *Node, sb *strings.Builder) {
	switch n.Kind {
	case Null:
		sb.WriteString("null")
	case Bool:
		sb.WriteString(strconv.FormatBool(n.B))
	case Number, String:
		sb.WriteString(n.Raw)
	case Array:
		sb.WriteByte('[')
		for i, e := range n.Elems {
			if i > 0 {
				sb.WriteByte(',')
			}
			compact(e, sb)
		}
		sb.WriteByte(']')
	case Object:
		sb.WriteByte('{')
		for i, m := range n.Members {
			if i > 0 {
				sb.WriteByte(',')
			}
			sb.WriteString(m.RawName)
			sb.WriteByte(':')
			compact(m.Value, sb)
		}
		sb.WriteByte('}')
	}
}

// Layout holds the whitespace options of the formatter.
type Layout struct {
	Multiline       bool
	Indent, Prefix  string
	SpaceAfterColon bool
	SpaceAfterComma bool
}

// Format serializes a tree (raw spellings kept) under the whitespace options, as the
// jsontext documentation describes them: with Multiline every element/member starts
// on its own line indented by prefix + depth×indent, empty containers stay "[]"/"{}".
func Format(n *Node, l Layout) []byte {
	var sb strings.Builder
	format(n, &sb, l, 0)
	return []byte(sb.String())
}

func newline(sb *strings.Builder, l Layout, depth int) {
	sb.WriteByte('\n')
	sb.WriteString(l.Prefix)
	for i := 0; i < depth; i++ {
		sb.WriteString(l.Indent)
	}
}

func format(n *Node, sb *strings.Builder, l Layout, depth int) {
	switch n.Kind {
	case Null:
		sb.WriteString("null")
	case Bool:
		sb.WriteString(strconv.FormatBool(n.B))
	case Number, String:
		sb.WriteString(n.Raw)
	case Array:
		sb.WriteByte('[')
		for i, e := range n.Elems {
			if i > 0 {
				sb.WriteByte(',')
				if l.SpaceAfterComma { // also before the line break under Multiline
					sb.WriteByte(' ')
				}
			}
			if l.Multiline {
				newline(sb, l, depth+1)
			}
			format(e, sb, l, depth+1)
		}
		if l.Multiline && len(n.Elems) > 0 {
			newline(sb, l, depth)
		}
		sb.WriteByte(']')
	case Object:
		sb.WriteByte('{')
		for i, m := range n.Members {
			if i > 0 {
				sb.WriteByte(',')
				if l.SpaceAfterComma { // also before the line break under Multiline
					sb.WriteByte(' ')
				}
			}
			if l.Multiline {
				newline(sb, l, depth+1)
			}
			sb.WriteString(m.RawName)
			sb.WriteByte(':')
			if l.SpaceAfterColon {
				sb.WriteByte(' ')
			}
			format(m.Value, sb, l, depth+1)
		}
		if l.Multiline && len(n.Members) > 0 {
			newline(sb, l, depth)
		}
		sb.WriteByte('}')
	}
}

// Merge implements the JSON-level merge used by C08/C14: objects are united
// recursively (order: members of a in order, then new members of b), anything else
// takes the b side.
func Merge(a, b *Node) *Node {
	if a == nil {
		return b
	}
	if a.Kind != Object || b.Kind != Object {
		return b
	}
	out := &Node{Kind: Object}
	idx := map[string]int{}
	for _, m := range a.Members {
		if j, ok := idx[m.Name]; ok {
			out.Members[j].Value = Merge(out.Members[j].Value, m.Value)
			continue
		}
		idx[m.Name] = len(out.Members)
		out.Members = append(out.Members, m)
	}
	for _, m := range b.Members {
		if j, ok := idx[m.Name]; ok {
			out.Members[j].Value = Merge(out.Members[j].Value, m.Value)
			continue
		}
		idx[m.Name] = len(out.Members)
		out.Members = append(out.Members, m)
	}
	return out
}

// Serialize writes a (possibly synthesized) tree as minimal JSON from meanings
// (strings re-quoted minimally, number literals kept).
func Serialize(n *Node) []byte {
	var sb strings.Builder
	serialize(n, &sb)
	return []byte(sb.String())
}

func serialize(n *Node, sb *strings.Builder) {
	switch n.Kind {
	case Null:
		sb.WriteString("null")
	case Bool:
		sb.WriteString(strconv.FormatBool(n.B))
	case Number:
		sb.WriteString(n.Raw)
	case String:
		sb.WriteString(Quote(n.S, QuoteOpts{}))
	case Array:
		sb.WriteByte('[')
		for i, e := range n.Elems {
			if i > 0 {
				sb.WriteByte(',')
			}
			serialize(e, sb)
		}
		sb.WriteByte(']')
	case Object:
		sb.WriteByte('{')
		for i, m := range n.Members {
			if i > 0 {
				sb.WriteByte(',')
			}
			sb.WriteString(Quote(m.Name, QuoteOpts{}))
			sb.WriteByte(':')
			serialize(m.Value, sb)
		}
		sb.WriteByte('}')
	}
}

// ToAny converts a tree to the Go value the documentation promises for `any`:
// nil, bool, string, float64 (nearest even), []any, map[string]any.
// overflow reports a number literal outside float64.
func ToAny(n *Node) (v any, overflow bool) {
	switch n.Kind {
	case Null:
		return nil, false
	case Bool:
		return n.B, false
	case Number:
		f, over := Float(n.Raw, 64)
		return f, over
	case String:
		return n.S, false
	case Array:
		out := make([]any, 0, len(n.Elems))
		for _, e := range n.Elems {
			x, o := ToAny(e)
			if o {
				overflow = true
			}
			out = append(out, x)
		}
		return out, overflow
	case Object:
		out := make(map[string]any, len(n.Members))
		for _, m := range n.Members {
			x, o := ToAny(m.Value)
			if o {
				overflow = true
			}
			out[m.Name] = x
		}
		return out, overflow
	}
	return nil, false
}

// HasDuplicate reports whether any object in the tree has two members with equal names.
func HasDuplicate(n *Node) bool {
	switch n.Kind {
	case Array:
		for _, e := range n.Elems {
			if HasDuplicate(e) {
				return true
			}
		}
	case Object:
		seen := map[string]bool{}
		for _, m := range n.Members {
			if seen[m.Name] {
				return true
			}
			seen[m.Name] = true
			if HasDuplicate(m.Value) {
				return true
			}
		}
	}
	return false
}

// EscapePointerToken applies RFC 6901 escaping.
func EscapePointerToken(s string) string {
	s = strings.ReplaceAll(s, "~", "~0")
	return strings.ReplaceAll(s, "/", "~1")
}

package ref

// Reference push-down model of a token-level JSON encoder (property C06).
//
// The model is written from RFC 8259/7493 and the documentation of the jsontext
// options; it imports nothing from the library under test.  Given the history of
// accepted calls it decides whether the next call keeps the output a prefix of a
// valid JSON stream, and it builds — as a tree, formatted by an independent
// recursive printer — the bytes that must have been delivered whenever the nesting
// depth is zero.

import (
	"math"
	"sort"
	"strconv"
	"strings"
	"unicode/utf8"
)

// EncOpts describes an option set of an encoder (JSON-serializable so that it can be
// part of a replayable case).
type EncOpts struct {
	AllowDup    bool    `json:"dup,omitempty"`
	AllowInvUTF bool    `json:"inv,omitempty"`
	Multiline   bool    `json:"multi,omitempty"`  // Multiline(true) passed explicitly
	Indent      *string `json:"indent,omitempty"` // WithIndent (implies Multiline)
	Prefix      *string `json:"prefix,omitempty"` // WithIndentPrefix (implies Multiline)
	Colon       int     `json:"colon,omitempty"`  // SpaceAfterColon: 0 unset, 1 true, -1 false
	Comma       int     `json:"comma,omitempty"`  // SpaceAfterComma: 0 unset, 1 true, -1 false
	HTML        bool    `json:"html,omitempty"`
	JS          bool    `json:"js,omitempty"`
	Preserve    bool    `json:"preserve,omitempty"`
	CanonInts   bool    `json:"cints,omitempty"`
	CanonFloats bool    `json:"cfloats,omitempty"`
	Reorder     bool    `json:"reorder,omitempty"`
}

// Key is a short stable description of the option set (for signatures and shape keys).
func (o EncOpts) Key() string {
	var p []string
	add := func(b bool, s string) {
		if b {
			p = append(p, s)
		}
	}
	add(o.AllowDup, "dup")
	add(o.AllowInvUTF, "inv")
	add(o.Multiline, "multi")
	add(o.Indent != nil, "indent")
	add(o.Prefix != nil, "prefix")
	add(o.Colon > 0, "colon+")
	add(o.Colon < 0, "colon-")
	add(o.Comma > 0, "comma+")
	add(o.Comma < 0, "comma-")
	add(o.HTML, "html")
	add(o.JS, "js")
	add(o.Preserve, "preserve")
	add(o.CanonInts, "cints")
	add(o.CanonFloats, "cfloats")
	add(o.Reorder, "reorder")
	if len(p) == 0 {
		return "default"
	}
	return strings.Join(p, ",")
}

// EncLayout is the resolved whitespace layout.
type EncLayout struct {
	Multiline      bool
	Indent, Prefix string
	Colon, Comma   bool
}

// Layout resolves the documented defaults: WithIndent/WithIndentPrefix imply Multiline;
// under Multiline, SpaceAfterColon defaults to true, SpaceAfterComma to false, the
// indent to one tab.
func (o EncOpts) Layout() EncLayout {
	l := EncLayout{Multiline: o.Multiline || o.Indent != nil || o.Prefix != nil}
	l.Colon = o.Colon > 0 || (o.Colon == 0 && l.Multiline)
	l.Comma = o.Comma > 0
	if l.Multiline {
		l.Indent = "\t"
		if o.Indent != nil {
			l.Indent = *o.Indent
		}
		if o.Prefix != nil {
			l.Prefix = *o.Prefix
		}
	}
	return l
}

// EncCall is one WriteToken or WriteValue call.
//
//	K: "n" "f" "t" "{" "}" "[" "]"  literal / structural tokens
//	   "s"  exact string token, S = the Go string
//	   "i"  Int(int64(N))   "u" Uint(N)   "d" Float(float64 bits N)   "e" Float32(float32 bits N)
//	   "rs" raw string token whose JSON literal is S (as produced by a Decoder)
//	   "rn" raw number token whose JSON literal is S
//	   "z"  the zero Token
//	   "v"  WriteValue(S)
type EncCall struct {
	K string `json:"k"`
	S []byte `json:"s,omitempty"`
	N uint64 `json:"n,omitempty"`
}

func (c EncCall) String() string {
	switch c.K {
	case "s":
		return "String(" + strconv.Quote(string(c.S)) + ")"
	case "i":
		return "Int(" + strconv.FormatInt(int64(c.N), 10) + ")"
	case "u":
		return "Uint(" + strconv.FormatUint(c.N, 10) + ")"
	case "d":
		return "Float(" + strconv.FormatFloat(math.Float64frombits(c.N), 'g', -1, 64) + ")"
	case "e":
		return "Float32(" + strconv.FormatFloat(float64(math.Float32frombits(uint32(c.N))), 'g', -1, 32) + ")"
	case "rs", "rn":
		return "raw(" + truncq(c.S) + ")"
	case "z":
		return "Token{}"
	case "v":
		return "Value(" + truncq(c.S) + ")"
	}
	return c.K
}

func truncq(b []byte) string {
	if len(b) > 60 {
		return strconv.Quote(string(b[:40])) + "…(" + strconv.Itoa(len(b)) + " bytes)"
	}
	return strconv.Quote(string(b))
}

// Class is a coarse class of the call for signatures.
func (c EncCall) Class() string {
	switch c.K {
	case "n", "f", "t":
		return "tok-literal"
	case "{", "}", "[", "]":
		return "tok" + c.K
	case "s", "rs":
		return "tok-string"
	case "d", "e":
		f := math.Float64frombits(c.N)
		if c.K == "e" {
			f = float64(math.Float32frombits(uint32(c.N)))
		}
		if math.IsNaN(f) || math.IsInf(f, 0) {
			return "tok-string" // Float(NaN) etc. are documented to be string tokens
		}
		return "tok-number"
	case "i", "u", "rn":
		return "tok-number"
	case "z":
		return "tok-zero"
	case "v":
		for _, b := range c.S {
			switch b {
			case ' ', '\t', '\n', '\r':
				continue
			case '{', '[':
				return "val-" + string(b)
			case '"':
				return "val-string"
			}
			break
		}
		return "val-other"
	}
	return "?"
}

// Reject reasons returned by Apply ("" means accepted).
const (
	RejNeedName     = "non-string-name"
	RejDupName      = "duplicate-name"
	RejMismatch     = "mismatched-close"
	RejMissingValue = "missing-value"
	RejInvalidUTF8  = "invalid-utf8"
	RejInvalidRaw   = "invalid-raw-value"
	RejRawDup       = "duplicate-inside-raw-value"
	RejRawUTF8      = "invalid-utf8-inside-raw-value"
	RejMaxDepth     = "max-depth"
	RejZeroToken    = "zero-token"
)

const encMaxDepth = 10000

type encFrame struct {
	obj      bool
	n        int64 // names and values counted separately
	names    map[string]struct{}
	lastName string
	node     *Node
}

// EncModel is the reference state after a history of accepted calls.
type EncModel struct {
	O      EncOpts
	L      EncLayout
	top    int64
	stack  []encFrame
	out    []byte // serialization of all complete top-level values
	Tokens int64  // accepted token count (raw values count their tokens)
}

// NewEncModel returns the model of a fresh encoder.
func NewEncModel(o EncOpts) *EncModel { return &EncModel{O: o, L: o.Layout()} }

// Depth is the documented StackDepth.
func (m *EncModel) Depth() int { return len(m.stack) }

// Index is the documented StackIndex(i).
func (m *EncModel) Index(i int) (kind byte, n int64) {
	if i == 0 {
		return 0, m.top
	}
	f := &m.stack[i-1]
	if f.obj {
		return '{', f.n
	}
	return '[', f.n
}

// Pointer is the RFC 6901 pointer to the most recently written value.
func (m *EncModel) Pointer() string {
	var sb strings.Builder
	for li := range m.stack {
		f := &m.stack[li]
		if li == len(m.stack)-1 && f.n == 0 {
			break
		}
		if f.obj {
			sb.WriteString("/" + EscapePointerToken(f.lastName))
		} else {
			sb.WriteString("/" + strconv.FormatInt(f.n-1, 10))
		}
	}
	return sb.String()
}

// Out is what must have been delivered once the depth is zero: every complete
// top-level value formatted per the options, each followed by one newline.
func (m *EncModel) Out() []byte { return m.out }

// Position classifies where the next call lands.
func (m *EncModel) Position() string {
	if len(m.stack) == 0 {
		return "top"
	}
	f := &m.stack[len(m.stack)-1]
	switch {
	case !f.obj:
		return "array"
	case f.n%2 == 0:
		return "object-name"
	default:
		return "object-value"
	}
}

// NeedName reports whether the next token must be an object name.
func (m *EncModel) NeedName() bool { return m.Position() == "object-name" }

// HasName reports whether the innermost open object already has this (unescaped) name.
func (m *EncModel) HasName(s string) bool {
	if len(m.stack) == 0 {
		return false
	}
	_, ok := m.stack[len(m.stack)-1].names[s]
	return ok
}

// Closers returns the calls that finish every open container (a pending member name
// gets a null value first).
func (m *EncModel) Closers() []EncCall {
	var cs []EncCall
	for i := len(m.stack) - 1; i >= 0; i-- {
		f := &m.stack[i]
		if f.obj {
			if f.n%2 == 1 && i == len(m.stack)-1 {
				cs = append(cs, EncCall{K: "n"})
			}
			cs = append(cs, EncCall{K: "}"})
		} else {
			cs = append(cs, EncCall{K: "]"})
		}
	}
	return cs
}

// ---------------------------------------------------------------------------------
// spelling of strings and numbers under the options

func (o EncOpts) q() QuoteOpts { return QuoteOpts{HTML: o.HTML, JS: o.JS} }

// RawString is the documented output spelling of a raw JSON string literal (from a
// Value or a raw Token): re-quoted minimally from its meaning, or — under
// PreserveRawStrings — kept as is except that the characters selected by
// EscapeForHTML/EscapeForJS are escaped.
func (o EncOpts) RawString(lit string) string {
	if !o.Preserve {
		s, _ := Unquote([]byte(lit), o.AllowInvUTF)
		return Quote(s, o.q())
	}
	const hexd = "0123456789abcdef"
	out := make([]byte, 0, len(lit)+8)
	for i := 0; i < len(lit); {
		c := lit[i]
		switch {
		case c == '\\' && i+1 < len(lit):
			n := 2
			if lit[i+1] == 'u' {
				n = 6
			}
			n = min(n, len(lit)-i)
			out = append(out, lit[i:i+n]...)
			i += n
		case c < utf8.RuneSelf:
			if o.HTML && (c == '<' || c == '>' || c == '&') {
				out = append(out, '\\', 'u', '0', '0', hexd[c>>4], hexd[c&15])
			} else {
				out = append(out, c)
			}
			i++
		default:
			r, n := utf8.DecodeRuneInString(lit[i:])
			if o.JS && (r == 0x2028 || r == 0x2029) {
				out = append(out, '\\', 'u', '2', '0', '2', hexd[r&15])
			} else {
				out = append(out, lit[i:i+n]...)
			}
			i += n
		}
	}
	return string(out)
}

// RawNumber is the documented output spelling of a raw JSON number literal.
func (o EncOpts) RawNumber(lit string) string {
	isFloat := strings.ContainsAny(lit, ".eE")
	if lit == "-0" && (o.CanonInts || o.CanonFloats) {
		return "0" // both options document: "As a special case, the number -0 is canonicalized as 0"
	}
	if (isFloat && !o.CanonFloats) || (!isFloat && !o.CanonInts) {
		return lit
	}
	f, over := Float(lit, 64)
	if over {
		f = math.Copysign(math.MaxFloat64, f)
	}
	return ES6(f)
}

func exactFloat(f float64, bits int) string {
	if f == 0 {
		if math.Signbit(f) {
			return "-0"
		}
		return "0"
	}
	return ES6Bits(f, bits)
}

// ---------------------------------------------------------------------------------
// the automaton

// valueDone accounts a complete value (given as a finished tree) at the current position.
func (m *EncModel) valueDone(n *Node) {
	if len(m.stack) == 0 {
		m.top++
		m.out = append(m.out, encFormat(n, m.L)...)
		m.out = append(m.out, '\n')
		return
	}
	f := &m.stack[len(m.stack)-1]
	f.n++
	if f.obj {
		mb := &f.node.Members[len(f.node.Members)-1]
		mb.Value = n
	} else {
		f.node.Elems = append(f.node.Elems, n)
	}
}

// name accounts an object name; it reports a duplicate.
func (m *EncModel) name(meaning, spelled string) string {
	f := &m.stack[len(m.stack)-1]
	if !m.O.AllowDup {
		if _, dup := f.names[meaning]; dup {
			return RejDupName
		}
		if f.names == nil {
			f.names = map[string]struct{}{}
		}
		f.names[meaning] = struct{}{}
	}
	f.lastName = meaning
	f.n++
	f.node.Members = append(f.node.Members, Member{Name: meaning, RawName: spelled})
	return ""
}

// Apply decides one call; on acceptance the state advances.
func (m *EncModel) Apply(c EncCall) (reject string) {
	needName := m.NeedName()
	scalar := func(spelled string) string {
		if needName {
			return RejNeedName
		}
		m.valueDone(&Node{Kind: Number, Raw: spelled}) // printed from Raw (see encFormat)
		m.Tokens++
		return ""
	}
	str := func(meaning, spelled string) string {
		if needName {
			if r := m.name(meaning, spelled); r != "" {
				return r
			}
		} else {
			m.valueDone(&Node{Kind: String, Raw: spelled, S: meaning})
		}
		m.Tokens++
		return ""
	}
	switch c.K {
	case "z":
		return RejZeroToken
	case "n":
		return scalar("null")
	case "f":
		return scalar("false")
	case "t":
		return scalar("true")
	case "i":
		return scalar(strconv.FormatInt(int64(c.N), 10))
	case "u":
		return scalar(strconv.FormatUint(c.N, 10))
	case "d":
		f := math.Float64frombits(c.N)
		switch {
		case math.IsNaN(f):
			return str("NaN", `"NaN"`)
		case math.IsInf(f, 1):
			return str("Infinity", `"Infinity"`)
		case math.IsInf(f, -1):
			return str("-Infinity", `"-Infinity"`)
		}
		return scalar(exactFloat(f, 64))
	case "e":
		f := float64(math.Float32frombits(uint32(c.N)))
		switch {
		case math.IsNaN(f):
			return str("NaN", `"NaN"`)
		case math.IsInf(f, 1):
			return str("Infinity", `"Infinity"`)
		case math.IsInf(f, -1):
			return str("-Infinity", `"-Infinity"`)
		}
		return scalar(exactFloat(f, 32))
	case "rn":
		return scalar(m.O.RawNumber(string(c.S)))
	case "s":
		s := string(c.S)
		if !utf8.ValidString(s) {
			if !m.O.AllowInvUTF {
				return RejInvalidUTF8
			}
			s = Sanitize(s)
		}
		return str(s, Quote(s, m.O.q()))
	case "rs":
		meaning, ok := Unquote(c.S, m.O.AllowInvUTF)
		if !ok {
			return RejInvalidUTF8 // raw tokens are grammatical by construction; only UTF-8 can be wrong
		}
		return str(meaning, m.O.RawString(string(c.S)))
	case "{", "[":
		if needName {
			return RejNeedName
		}
		if len(m.stack) >= encMaxDepth {
			return RejMaxDepth
		}
		nd := &Node{Kind: Array}
		if c.K == "{" {
			nd.Kind = Object
		}
		// account the container in its parent now (as StackIndex documents), attach the
		// tree when it is complete
		if len(m.stack) == 0 {
			m.top++
		} else {
			m.stack[len(m.stack)-1].n++
		}
		m.stack = append(m.stack, encFrame{obj: c.K == "{", node: nd})
		m.Tokens++
		return ""
	case "}", "]":
		if len(m.stack) == 0 {
			return RejMismatch
		}
		f := &m.stack[len(m.stack)-1]
		if f.obj != (c.K == "}") {
			return RejMismatch
		}
		if f.obj && f.n%2 == 1 {
			return RejMissingValue
		}
		nd := f.node
		m.stack = m.stack[:len(m.stack)-1]
		// the parent was already incremented at the opening token
		if len(m.stack) == 0 {
			m.out = append(m.out, encFormat(nd, m.L)...)
			m.out = append(m.out, '\n')
		} else {
			p := &m.stack[len(m.stack)-1]
			if p.obj {
				p.node.Members[len(p.node.Members)-1].Value = nd
			} else {
				p.node.Elems = append(p.node.Elems, nd)
			}
		}
		m.Tokens++
		return ""
	case "v":
		return m.value(c.S, needName)
	}
	panic("ref: unknown EncCall kind " + c.K)
}

func (m *EncModel) value(v []byte, needName bool) string {
	remaining := encMaxDepth - len(m.stack)
	po := Opts{AllowInvalidUTF8: m.O.AllowInvUTF, AllowDup: m.O.AllowDup, MaxDepth: max(remaining, 1)}
	nd := Parse(v, po)
	if nd != nil && remaining == 0 && (nd.Kind == Array || nd.Kind == Object) {
		return RejMaxDepth
	}
	if nd == nil {
		// classify (evidence only): would it parse with the strictness switched off?
		lax := Parse(v, Opts{AllowInvalidUTF8: true, AllowDup: true, MaxDepth: encMaxDepth + 8})
		switch {
		case lax == nil:
			return RejInvalidRaw
		case Parse(v, Opts{AllowInvalidUTF8: true, AllowDup: true, MaxDepth: max(remaining, 1)}) == nil ||
			(remaining == 0 && (lax.Kind == Array || lax.Kind == Object)):
			return RejMaxDepth
		case Parse(v, Opts{AllowInvalidUTF8: true, AllowDup: m.O.AllowDup, MaxDepth: encMaxDepth + 8}) == nil:
			return RejRawDup
		default:
			return RejRawUTF8
		}
	}
	if needName {
		if nd.Kind != String {
			return RejNeedName
		}
		if r := m.name(nd.S, m.O.RawString(nd.Raw)); r != "" {
			return r
		}
		m.Tokens++
		return ""
	}
	m.Tokens += m.respell(nd)
	m.valueDone(nd)
	return ""
}

// respell rewrites a parsed raw value into its output spelling (strings, numbers,
// member order) and returns its token count.
func (m *EncModel) respell(n *Node) (tokens int64) {
	switch n.Kind {
	case String:
		n.Raw = m.O.RawString(n.Raw)
		return 1
	case Number:
		n.Raw = m.O.RawNumber(n.Raw)
		return 1
	case Array:
		tokens = 2
		for _, e := range n.Elems {
			tokens += m.respell(e)
		}
	case Object:
		tokens = 2
		for i := range n.Members {
			n.Members[i].RawName = m.O.RawString(n.Members[i].RawName)
			tokens += 1 + m.respell(n.Members[i].Value)
		}
		if m.O.Reorder {
			sort.SliceStable(n.Members, func(i, j int) bool { return U16Less(n.Members[i].Name, n.Members[j].Name) })
		}
	default:
		return 1
	}
	return tokens
}

// ---------------------------------------------------------------------------------
// recursive printer

func encNewline(sb *strings.Builder, l EncLayout, depth int) {
	sb.WriteByte('\n')
	sb.WriteString(l.Prefix)
	for i := 0; i < depth; i++ {
		sb.WriteString(l.Indent)
	}
}

// encFormat prints a finished tree under the layout: "a space after each colon / each
// comma" when selected; under Multiline every member/element starts on a new line
// indented by prefix + depth×indent and the closing delimiter of a non-empty container
// sits on its own line at the container's depth; empty containers stay "{}" / "[]".
func encFormat(n *Node, l EncLayout) string {
	var sb strings.Builder
	encPrint(n, &sb, l, 0)
	return sb.String()
}

func encPrint(n *Node, sb *strings.Builder, l EncLayout, depth int) {
	switch n.Kind {
	case Null:
		sb.WriteString("null")
	case Bool:
		sb.WriteString(strconv.FormatBool(n.B))
	case Number, String:
		sb.WriteString(n.Raw)
	case Array:
		sb.WriteByte('[')
		for i, e := range n.Elems {
			if i > 0 {
				sb.WriteByte(',')
				if l.Comma {
					sb.WriteByte(' ')
				}
			}
			if l.Multiline {
				encNewline(sb, l, depth+1)
			}
			encPrint(e, sb, l, depth+1)
		}
		if l.Multiline && len(n.Elems) > 0 {
			encNewline(sb, l, depth)
		}
		sb.WriteByte(']')
	case Object:
		sb.WriteByte('{')
		for i, mb := range n.Members {
			if i > 0 {
				sb.WriteByte(',')
				if l.Comma {
					sb.WriteByte(' ')
				}
			}
			if l.Multiline {
				encNewline(sb, l, depth+1)
			}
			sb.WriteString(mb.RawName)
			sb.WriteByte(':')
			if l.Colon {
				sb.WriteByte(' ')
			}
			encPrint(mb.Value, sb, l, depth+1)
		}
		if l.Multiline && len(n.Members) > 0 {
			encNewline(sb, l, depth)
		}
		sb.WriteByte('}')
	}
}

// EncFormatTree exposes the printer (used by the oracle self-test against the
// toolchain's encoding/json.Indent/Compact).
func EncFormatTree(n *Node, l EncLayout) string { return encFormat(n, l) }

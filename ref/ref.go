// Package ref is an independent reference JSON parser used as an oracle.
package ref

import (
	"bytes"
	"unicode/utf8"
)

type Kind int

const (
	Null Kind = iota
	Bool
	Number
	String
	Array
	Object
)

type Member struct {
	Name    string // unescaped
	RawName string
	Value   *Node
}
type Node struct {
	Kind    Kind
	B       bool
	Raw     string // raw literal for numbers/strings
	S       string // unescaped string
	Elems   []*Node
	Members []Member
	Start, End int
}

type Opts struct {
	AllowInvalidUTF8 bool
	AllowDup         bool
	MaxDepth         int
}

type parser struct {
	b     []byte
	i     int
	o     Opts
	depth int
}

func (r *parser) ws() {
	for r.i < len(r.b) && (r.b[r.i] == ' ' || r.b[r.i] == '\t' || r.b[r.i] == '\n' || r.b[r.i] == '\r') {
		r.i++
	}
}
func hex(c byte) int {
	switch {
	case '0' <= c && c <= '9':
		return int(c - '0')
	case 'a' <= c && c <= 'f':
		return int(c-'a') + 10
	case 'A' <= c && c <= 'F':
		return int(c-'A') + 10
	}
	return -1
}
func (r *parser) hex4() (int, bool) {
	if r.i+4 > len(r.b) {
		return 0, false
	}
	v := 0
	for k := 0; k < 4; k++ {
		h := hex(r.b[r.i+k])
		if h < 0 {
			return 0, false
		}
		v = v*16 + h
	}
	r.i += 4
	return v, true
}
func (r *parser) str() (string, bool) {
	if r.i >= len(r.b) || r.b[r.i] != '"' {
		return "", false
	}
	r.i++
	var out []byte
	for {
		if r.i >= len(r.b) {
			return "", false
		}
		c := r.b[r.i]
		switch {
		case c == '"':
			r.i++
			return string(out), true
		case c < 0x20:
			return "", false
		case c == '\\':
			r.i++
			if r.i >= len(r.b) {
				return "", false
			}
			e := r.b[r.i]
			r.i++
			switch e {
			case '"', '\\', '/':
				out = append(out, e)
			case 'b':
				out = append(out, '\b')
			case 'f':
				out = append(out, '\f')
			case 'n':
				out = append(out, '\n')
			case 'r':
				out = append(out, '\r')
			case 't':
				out = append(out, '\t')
			case 'u':
				v, ok := r.hex4()
				if !ok {
					return "", false
				}
				if v >= 0xD800 && v < 0xDC00 {
					save := r.i
					if r.i+2 <= len(r.b) && r.b[r.i] == '\\' && r.b[r.i+1] == 'u' {
						r.i += 2
						v2, ok := r.hex4()
						if ok && v2 >= 0xDC00 && v2 < 0xE000 {
							out = utf8.AppendRune(out, rune(0x10000+(v-0xD800)<<10+(v2-0xDC00)))
							continue
						}
					}
					r.i = save
					if !r.o.AllowInvalidUTF8 {
						return "", false
					}
					out = append(out, "�"...)
				} else if v >= 0xDC00 && v < 0xE000 {
					if !r.o.AllowInvalidUTF8 {
						return "", false
					}
					out = append(out, "�"...)
				} else {
					out = utf8.AppendRune(out, rune(v))
				}
			default:
				return "", false
			}
		case c < 0x80:
			out = append(out, c)
			r.i++
		default:
			rn, n := utf8.DecodeRune(r.b[r.i:])
			if rn == utf8.RuneError && n == 1 {
				if !r.o.AllowInvalidUTF8 {
					return "", false
				}
				out = append(out, "�"...)
				r.i++
			} else {
				out = append(out, r.b[r.i:r.i+n]...)
				r.i += n
			}
		}
	}
}
func (r *parser) digits() bool {
	s := r.i
	for r.i < len(r.b) && '0' <= r.b[r.i] && r.b[r.i] <= '9' {
		r.i++
	}
	return r.i > s
}
func (r *parser) num() bool {
	if r.i < len(r.b) && r.b[r.i] == '-' {
		r.i++
	}
	if r.i >= len(r.b) {
		return false
	}
	if r.b[r.i] == '0' {
		r.i++
	} else if '1' <= r.b[r.i] && r.b[r.i] <= '9' {
		r.digits()
	} else {
		return false
	}
	if r.i < len(r.b) && r.b[r.i] == '.' {
		r.i++
		if !r.digits() {
			return false
		}
	}
	if r.i < len(r.b) && (r.b[r.i] == 'e' || r.b[r.i] == 'E') {
		r.i++
		if r.i < len(r.b) && (r.b[r.i] == '+' || r.b[r.i] == '-') {
			r.i++
		}
		if !r.digits() {
			return false
		}
	}
	return true
}
func (r *parser) lit(s string) bool {
	if bytes.HasPrefix(r.b[r.i:], []byte(s)) {
		r.i += len(s)
		return true
	}
	return false
}
func (r *parser) value() *Node {
	if r.i >= len(r.b) {
		return nil
	}
	n := &Node{Start: r.i}
	defer func() { n.End = r.i }()
	switch c := r.b[r.i]; {
	case c == 'n':
		if !r.lit("null") {
			return nil
		}
		n.Kind = Null
	case c == 't':
		if !r.lit("true") {
			return nil
		}
		n.Kind, n.B = Bool, true
	case c == 'f':
		if !r.lit("false") {
			return nil
		}
		n.Kind = Bool
	case c == '"':
		s, ok := r.str()
		if !ok {
			return nil
		}
		n.Kind, n.S, n.Raw = String, s, string(r.b[n.Start:r.i])
	case c == '-' || ('0' <= c && c <= '9'):
		if !r.num() {
			return nil
		}
		n.Kind, n.Raw = Number, string(r.b[n.Start:r.i])
	case c == '[':
		r.depth++
		defer func() { r.depth-- }()
		if r.depth > r.o.MaxDepth {
			return nil
		}
		n.Kind = Array
		r.i++
		r.ws()
		if r.i < len(r.b) && r.b[r.i] == ']' {
			r.i++
			return n
		}
		for {
			r.ws()
			v := r.value()
			if v == nil {
				return nil
			}
			n.Elems = append(n.Elems, v)
			r.ws()
			if r.i >= len(r.b) {
				return nil
			}
			if r.b[r.i] == ',' {
				r.i++
				continue
			}
			if r.b[r.i] == ']' {
				r.i++
				return n
			}
			return nil
		}
	case c == '{':
		r.depth++
		defer func() { r.depth-- }()
		if r.depth > r.o.MaxDepth {
			return nil
		}
		n.Kind = Object
		r.i++
		r.ws()
		if r.i < len(r.b) && r.b[r.i] == '}' {
			r.i++
			return n
		}
		seen := map[string]bool{}
		for {
			r.ws()
			s0 := r.i
			name, ok := r.str()
			if !ok {
				return nil
			}
			rawName := string(r.b[s0:r.i])
			if !r.o.AllowDup {
				if seen[name] {
					return nil
				}
				seen[name] = true
			}
			r.ws()
			if r.i >= len(r.b) || r.b[r.i] != ':' {
				return nil
			}
			r.i++
			r.ws()
			v := r.value()
			if v == nil {
				return nil
			}
			n.Members = append(n.Members, Member{name, rawName, v})
			r.ws()
			if r.i >= len(r.b) {
				return nil
			}
			if r.b[r.i] == ',' {
				r.i++
				continue
			}
			if r.b[r.i] == '}' {
				r.i++
				return n
			}
			return nil
		}
	default:
		return nil
	}
	return n
}

// Parse parses exactly one JSON text; nil if invalid.
func Parse(b []byte, o Opts) *Node {
	if o.MaxDepth == 0 {
		o.MaxDepth = 10000
	}
	r := &parser{b: b, o: o}
	r.ws()
	n := r.value()
	if n == nil {
		return nil
	}
	r.ws()
	if r.i != len(b) {
		return nil
	}
	return n
}

# sourced by check/setup.sh: offline Go environment for the harness
export GOFLAGS=-mod=mod GOPROXY=off GOSUMDB=off GOTOOLCHAIN=local GONOSUMDB=* GONOSUMCHECK=1 GOFLAGS=-mod=mod
_gomod="${GOMODCACHE:-$HOME/go/pkg/mod}"
for _cand in "$_gomod/golang.org/toolchain@v0.0.1-go1.26.0.linux-amd64/bin" /root/go/pkg/mod/golang.org/toolchain@v0.0.1-go1.26.0.linux-amd64/bin /opt/veriftools/go1.26.8/bin; do
  if [ -x "$_cand/go" ]; then export PATH="$_cand:$PATH"; break; fi
done
unset _cand _gomod

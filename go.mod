module verif

go 1.26

require github.com/go-json-experiment/json v0.0.0

replace github.com/go-json-experiment/json => /repo

#!/bin/bash
# setup_cmd: offline build of every harness binary (warms the Go build cache, incl. the race runtime)
set -u
cd "$(dirname "$0")"
. ./env.sh
mkdir -p work/bin evidence replays
go version || exit 1
rc=0
for d in cmd/*/; do
  id=$(basename "$d")
  race=""; [ -f "$d/RACE" ] && race="-race"
  go build $race -tags verif -o "work/bin/$id" "./$d" 2>"work/bin/$id.build.log" || go build $race -o "work/bin/$id" "./$d" || rc=1
  [ -f "$d/NORACE_TOO" ] && { go build -tags verif -o "work/bin/$id-norace" "./$d" 2>>"work/bin/$id.build.log" || true; }
done
exit $rc

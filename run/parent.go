package run

import (
	"bytes"
	"crypto/sha256"
	stdjson "encoding/json"
	"flag"
	"fmt"
	"os"
	"os/exec"
	"path/filepath"
	"regexp"
	"runtime"
	"sort"
	"strconv"
	"strings"
	"sync"
	"syscall"
	"time"
)

// VerifDir is the root of the verification tree (evidence, replays, known findings).
func VerifDir() string {
	if d := os.Getenv("VERIF_DIR"); d != "" {
		return d
	}
	return "/verif"
}

// OutDir is where evidence and replay files go (VERIF_OUT overrides it for mutation runs,
// so that runs against scratch copies never touch the committed evidence).
func OutDir() string {
	if d := os.Getenv("VERIF_OUT"); d != "" {
		return d
	}
	return VerifDir()
}

// Parent is the merged state available to Monitor.Post.
type Parent struct {
	M        *Monitor
	Tier     string
	Seed     int64
	Dir      string
	Counters map[string]int64
	Viols    []*Violation
	Broken   []string
	Inconcl  []string
}

// AddViolation lets Post report a violation found from merged data.
func (p *Parent) AddViolation(exec, sub string, sig map[string]string, caseArgs any, format string, a ...any) {
	b, _ := stdjson.Marshal(caseArgs)
	p.Viols = append(p.Viols, &Violation{Property: p.M.ID, Exec: exec, Sub: sub, Sig: sig,
		Detail: fmt.Sprintf(format, a...), Case: caseJSON(exec, b), Seed: p.Seed, Tier: p.Tier})
}

type knownFinding struct {
	ID       string            `json:"id"`
	Property string            `json:"property"`
	Status   string            `json:"status"` // "known" | "fixed"
	Commit   string            `json:"commit,omitempty"`
	What     string            `json:"what"`
	Match    map[string]string `json:"match"` // attr -> regexp; attrs: sub, exec, sig.<k>
}

func loadKnown() []knownFinding {
	data, err := os.ReadFile(filepath.Join(VerifDir(), "known_findings.json"))
	if err != nil {
		return nil
	}
	var f struct {
		Findings []knownFinding `json:"findings"`
	}
	if err := stdjson.Unmarshal(data, &f); err != nil {
		fmt.Fprintln(os.Stderr, "known_findings.json:", err)
		return nil
	}
	return f.Findings
}

func (k *knownFinding) matches(v *Violation) bool {
	if k.Status != "known" || k.Property != v.Property || len(k.Match) == 0 {
		return false
	}
	for attr, pat := range k.Match {
		var val string
		switch {
		case attr == "sub":
			val = v.Sub
		case attr == "exec":
			val = v.Exec
		case strings.HasPrefix(attr, "sig."):
			val = v.Sig[attr[4:]]
		default:
			return false
		}
		re, err := regexp.Compile("^(?:" + pat + ")$")
		if err != nil || !re.MatchString(val) {
			return false
		}
	}
	return true
}

// Main is the entry point of every per-property binary.
func Main(m *Monitor) {
	var (
		worker = flag.Int("worker", -1, "internal: worker shard")
		nw     = flag.Int("n", 0, "internal: shard count")
		dir    = flag.String("dir", "", "internal: work dir")
		tierF  = flag.String("tier", "", "internal: tier")
		seedF  = flag.Int64("seed", 0, "internal: seed")
		replay = flag.String("replay", "", "replay a recorded case file")
	)
	flag.Parse()
	if *worker >= 0 {
		workerMain(m, *tierF, *seedF, *worker, *nw, *dir)
		return
	}
	tier := "quick"
	if flag.NArg() > 0 {
		tier = flag.Arg(0)
	}
	if t := os.Getenv("VERIF_TIER"); t == "quick" || t == "thorough" {
		tier = t
	}
	if tier != "quick" && tier != "thorough" {
		fmt.Fprintln(os.Stderr, "usage: <bin> quick|thorough | --replay <file>")
		os.Exit(2)
	}
	seed := int64(1)
	if s := os.Getenv("VERIF_SEED"); s != "" {
		if v, err := strconv.ParseInt(s, 10, 64); err == nil {
			seed = v
		}
	}
	if *replay != "" {
		os.Exit(replayMain(m, *replay))
	}
	os.Exit(parentMain(m, tier, seed))
}

func replayMain(m *Monitor, path string) int {
	data, err := os.ReadFile(path)
	if err != nil {
		fmt.Fprintln(os.Stderr, err)
		return 2
	}
	var v Violation
	if err := stdjson.Unmarshal(data, &v); err != nil {
		fmt.Fprintln(os.Stderr, err)
		return 2
	}
	var c struct {
		Exec string             `json:"exec"`
		Args stdjson.RawMessage `json:"args"`
	}
	if err := stdjson.Unmarshal(v.Case, &c); err != nil {
		fmt.Fprintln(os.Stderr, "case:", err)
		return 2
	}
	def := m.execs[c.Exec]
	if def == nil {
		fmt.Fprintf(os.Stderr, "exec %q is not replayable in-process (%s)\n", c.Exec, v.Sub)
		return 2
	}
	tier := v.Tier
	if tier == "" {
		tier = "quick"
	}
	w := newW(m, tier, v.Seed, 0, 1)
	w.Replay = true
	args := def.newArgs()
	if err := stdjson.Unmarshal(c.Args, args); err != nil {
		fmt.Fprintln(os.Stderr, "args:", err)
		return 2
	}
	w.curName, w.curArgs = c.Exec, c.Args
	w.exec(def, args)
	known := loadKnown()
	rc := 0
	for _, vv := range w.viols {
		isKnown := false
		for i := range known {
			if known[i].matches(vv) {
				fmt.Printf("KNOWN-FINDING: property=%s %s [%s]\n", vv.Property, known[i].What, known[i].ID)
				isKnown = true
				break
			}
		}
		if !isKnown {
			fmt.Printf("VIOLATION property=%s replay=%s\n", vv.Property, path)
			fmt.Printf("  sub=%s sig=%v\n  %s\n", vv.Sub, vv.Sig, vv.Detail)
			rc = 1
		}
	}
	for _, b := range w.broken {
		fmt.Fprintln(os.Stderr, "BROKEN:", b)
		if rc == 0 {
			rc = 2
		}
	}
	if rc == 0 {
		fmt.Println("replay: no violation")
	}
	return rc
}

type workerState struct {
	shard    int
	cmd      *exec.Cmd
	done     chan error
	lastSize int64
	lastMove time.Time
	killed   bool
	logPath  string
}

func parentMain(m *Monitor, tier string, seed int64) int {
	start := time.Now()
	workRoot := os.Getenv("VERIF_WORK")
	if workRoot == "" {
		workRoot = filepath.Join(VerifDir(), "work")
	}
	dir := filepath.Join(workRoot, m.ID+"-"+tier)
	os.RemoveAll(dir)
	if err := os.MkdirAll(dir, 0o755); err != nil {
		fmt.Fprintln(os.Stderr, err)
		return 2
	}
	p := &Parent{M: m, Tier: tier, Seed: seed, Dir: dir, Counters: map[string]int64{}}

	if m.SelfTest != nil {
		var err error
		func() {
			defer func() {
				if r := recover(); r != nil {
					err = fmt.Errorf("self-test panic: %v", r)
				}
			}()
			err = m.SelfTest()
		}()
		if err != nil {
			fmt.Fprintf(os.Stderr, "INCONCLUSIVE property=%s: oracle self-test failed: %v\n", m.ID, err)
			return 2
		}
		p.Counters["oracle_selftest_ok"] = 1
	}

	if m.Prepare != nil {
		if err := m.Prepare(dir, tier, seed); err != nil {
			fmt.Fprintf(os.Stderr, "INCONCLUSIVE property=%s: preparation failed: %v\n", m.ID, err)
			return 2
		}
	}

	n := m.Workers
	if n <= 0 {
		n = runtime.NumCPU()
		if n > 16 {
			n = 16
		}
	}
	if v, err := strconv.Atoi(os.Getenv("VERIF_WORKERS")); err == nil && v > 0 {
		n = v
	}
	hang := time.Duration(m.HangSeconds) * time.Second
	if hang == 0 {
		hang = 180 * time.Second
		if tier == "thorough" {
			hang = 600 * time.Second
		}
	}
	self, _ := os.Executable()
	states := make([]*workerState, n)
	for i := 0; i < n; i++ {
		states[i] = startWorker(self, m, tier, seed, i, n, dir)
	}
	// watchdog + wait
	var reports []*report
	var shapes = map[uint64]struct{}{}
	var samples []any
	var evals int64
	for _, ws := range states {
		err := waitWorker(ws, dir, hang)
		jname, jargs, done := lastOpenCase(filepath.Join(dir, fmt.Sprintf("w%d.journal", ws.shard)))
		rep := readReport(filepath.Join(dir, fmt.Sprintf("w%d.report.json", ws.shard)))
		if rep != nil && rep.Done && err == nil {
			reports = append(reports, rep)
			continue
		}
		// the worker died or was killed
		tail := tailFile(ws.logPath, 6000)
		switch {
		case ws.killed:
			// watchdog fired: re-run the case alone with 4x the limit
			p.Counters["watchdog_fired"]++
			if jname == "" {
				p.Broken = append(p.Broken, fmt.Sprintf("worker %d made no progress for %v outside any case\n%s", ws.shard, hang, tail))
				break
			}
			hung := rerunAlone(self, m, tier, seed, jname, jargs, dir, 4*hang)
			if hung {
				p.Viols = append(p.Viols, &Violation{Property: m.ID, Exec: jname, Sub: "hang",
					Sig:    map[string]string{"exec": jname},
					Detail: fmt.Sprintf("case did not terminate within %v and again within %v when run alone\n%s", hang, 4*hang, tail),
					Case:   caseJSON(jname, jargs), Seed: seed, Tier: tier})
			} else {
				p.Inconcl = append(p.Inconcl, fmt.Sprintf("watchdog fired once for exec %s (finished when re-run alone); remaining cases of shard %d not run", jname, ws.shard))
			}
		case done:
			p.Broken = append(p.Broken, fmt.Sprintf("worker %d finished its cases but wrote no report: %v\n%s", ws.shard, err, tail))
		case jname == "":
			p.Broken = append(p.Broken, fmt.Sprintf("worker %d died before its first case: %v\n%s", ws.shard, err, tail))
		default:
			// fatal runtime error or os.Exit inside a case: the journal's last open case is the witness
			class := classifyFatal(tail)
			if class == "harness" {
				p.Broken = append(p.Broken, fmt.Sprintf("worker %d died in harness code: %v\n%s", ws.shard, err, tail))
				break
			}
			p.Viols = append(p.Viols, &Violation{Property: m.ID, Exec: jname, Sub: "fatal",
				Sig:    map[string]string{"class": class},
				Detail: fmt.Sprintf("worker process died while executing this case (%v)\n%s", err, tail),
				Case:   caseJSON(jname, jargs), Seed: seed, Tier: tier})
			p.Inconcl = append(p.Inconcl, fmt.Sprintf("shard %d stopped at a fatal error; its remaining cases were not run", ws.shard))
		}
		if rep != nil {
			reports = append(reports, rep)
		}
	}
	var nviol int64
	for _, r := range reports {
		for k, v := range r.Counters {
			p.Counters[k] += v
		}
		for _, s := range r.Shapes {
			shapes[s] = struct{}{}
		}
		if len(samples) < 6 {
			for _, s := range r.Samples {
				if len(samples) < 6 {
					samples = append(samples, s)
				}
			}
		}
		p.Viols = append(p.Viols, r.Viols...)
		p.Broken = append(p.Broken, r.Broken...)
		evals += r.Evals
		nviol += r.NViol
	}
	if m.Post != nil {
		func() {
			defer func() {
				if r := recover(); r != nil {
					p.Broken = append(p.Broken, fmt.Sprintf("post panic: %v", r))
				}
			}()
			m.Post(p)
		}()
	}

	// classify violations against known findings; dedupe by signature
	known := loadKnown()
	type group struct {
		v     *Violation
		count int
		kf    *knownFinding
	}
	groups := map[string]*group{}
	var order []string
	for _, v := range p.Viols {
		k := v.key()
		g := groups[k]
		if g == nil {
			g = &group{v: v}
			for i := range known {
				if known[i].matches(v) {
					g.kf = &known[i]
					break
				}
			}
			groups[k] = g
			order = append(order, k)
		}
		g.count++
	}
	sort.Strings(order)
	newViol := 0
	knownSeen := map[string]int{}
	os.MkdirAll(filepath.Join(OutDir(), "replays"), 0o755)
	for _, k := range order {
		g := groups[k]
		if g.kf != nil {
			knownSeen[g.kf.ID] += g.count
			continue
		}
		newViol++
		if newViol > 25 {
			continue
		}
		b, _ := stdjson.MarshalIndent(g.v, "", " ")
		sum := sha256.Sum256(b)
		path := filepath.Join(OutDir(), "replays", fmt.Sprintf("%s-%x.json", m.ID, sum[:6]))
		os.WriteFile(path, b, 0o644)
		fmt.Printf("VIOLATION property=%s replay=%s\n", m.ID, path)
		fmt.Printf("  sub=%s sig=%v\n  %s\n", g.v.Sub, g.v.Sig, indent(trunc(g.v.Detail, 1500)))
	}
	var kfIDs []string
	for id := range knownSeen {
		kfIDs = append(kfIDs, id)
	}
	sort.Strings(kfIDs)
	for _, id := range kfIDs {
		for i := range known {
			if known[i].ID == id {
				fmt.Printf("KNOWN-FINDING: property=%s %s [%s, %d witnesses this run]\n", m.ID, known[i].What, id, knownSeen[id])
			}
		}
	}

	// floors
	var unmet []string
	if m.Floors != nil && len(p.Inconcl) == 0 {
		unmet = m.Floors(p.Counters, tier)
	}

	// evidence
	ev := map[string]any{
		"property_id": m.ID,
		"tier":        tier,
		"seed":        seed,
		"level":       m.Level,
		"coverage": map[string]any{
			"evaluations":         evals,
			"distinct_nontrivial": len(shapes),
			"rule":                m.Rule,
			"samples":             samples,
			"counters":            p.Counters,
			"workers":             n,
			"inconclusive_cases":  p.Inconcl,
			"unmet_floors":        unmet,
			"known_findings_seen": knownSeen,
			"violation_witnesses": nviol,
		},
		"assumptions": m.Assumptions,
		"wall_s":      time.Since(start).Seconds(),
		"violations":  newViol,
	}
	os.MkdirAll(filepath.Join(OutDir(), "evidence"), 0o755)
	evb, _ := stdjson.MarshalIndent(ev, "", " ")
	os.WriteFile(filepath.Join(OutDir(), "evidence", m.ID+".json"), append(evb, '\n'), 0o644)

	fmt.Printf("%s %s seed=%d: evaluations=%d distinct_nontrivial=%d new_violations=%d known=%d wall=%.1fs\n",
		m.ID, tier, seed, evals, len(shapes), newViol, len(knownSeen), time.Since(start).Seconds())
	printCounters(p.Counters)

	if newViol > 0 {
		return 1
	}
	if len(p.Broken) > 0 {
		for _, b := range p.Broken {
			fmt.Fprintf(os.Stderr, "INCONCLUSIVE property=%s (harness malfunction): %s\n", m.ID, trunc(b, 3000))
		}
		return 2
	}
	if len(unmet) > 0 {
		for _, u := range unmet {
			fmt.Fprintf(os.Stderr, "INCONCLUSIVE property=%s: non-vacuity floor not met: %s\n", m.ID, u)
		}
		return 2
	}
	for _, s := range p.Inconcl {
		fmt.Fprintf(os.Stderr, "note: inconclusive: %s\n", s)
	}
	return 0
}

func printCounters(c map[string]int64) {
	ks := make([]string, 0, len(c))
	for k := range c {
		ks = append(ks, k)
	}
	sort.Strings(ks)
	var sb strings.Builder
	for _, k := range ks {
		fmt.Fprintf(&sb, " %s=%d", k, c[k])
	}
	fmt.Println(" counters:" + sb.String())
}

func indent(s string) string { return strings.ReplaceAll(s, "\n", "\n  ") }

func startWorker(self string, m *Monitor, tier string, seed int64, i, n int, dir string) *workerState {
	logPath := filepath.Join(dir, fmt.Sprintf("w%d.log", i))
	lf, _ := os.Create(logPath)
	if m.WorkerBin != nil {
		if b := m.WorkerBin(self, i); b != "" {
			self = b
		}
	}
	cmd := exec.Command(self, "-worker", strconv.Itoa(i), "-n", strconv.Itoa(n), "-dir", dir, "-tier", tier, "-seed", strconv.FormatInt(seed, 10))
	cmd.Stdout = lf
	cmd.Stderr = lf
	cmd.Env = append(os.Environ(), "GOTRACEBACK=all")
	if m.WorkerEnv != nil {
		cmd.Env = append(cmd.Env, m.WorkerEnv(dir)...)
	}
	ws := &workerState{shard: i, cmd: cmd, done: make(chan error, 1), lastMove: time.Now(), logPath: logPath}
	if err := cmd.Start(); err != nil {
		ws.done <- err
		return ws
	}
	go func() { ws.done <- cmd.Wait(); lf.Close() }()
	return ws
}

func waitWorker(ws *workerState, dir string, hang time.Duration) error {
	jpath := filepath.Join(dir, fmt.Sprintf("w%d.journal", ws.shard))
	tick := time.NewTicker(500 * time.Millisecond)
	defer tick.Stop()
	for {
		select {
		case err := <-ws.done:
			return err
		case <-tick.C:
			if fi, err := os.Stat(jpath); err == nil && fi.Size() != ws.lastSize {
				ws.lastSize = fi.Size()
				ws.lastMove = time.Now()
			}
			if time.Since(ws.lastMove) > hang && !ws.killed {
				ws.killed = true
				ws.cmd.Process.Signal(syscall.SIGQUIT)
				go func() { time.Sleep(5 * time.Second); ws.cmd.Process.Kill() }()
			}
		}
	}
}

func rerunAlone(self string, m *Monitor, tier string, seed int64, name string, args []byte, dir string, limit time.Duration) (hung bool) {
	v := &Violation{Property: m.ID, Exec: name, Case: caseJSON(name, args), Seed: seed, Tier: tier}
	b, _ := stdjson.Marshal(v)
	path := filepath.Join(dir, "rerun.json")
	os.WriteFile(path, b, 0o644)
	cmd := exec.Command(self, "-replay", path, tier)
	var out bytes.Buffer
	cmd.Stdout, cmd.Stderr = &out, &out
	if err := cmd.Start(); err != nil {
		return false
	}
	done := make(chan error, 1)
	go func() { done <- cmd.Wait() }()
	select {
	case <-done:
		return false
	case <-time.After(limit):
		cmd.Process.Kill()
		<-done
		return true
	}
}

func readReport(path string) *report {
	data, err := os.ReadFile(path)
	if err != nil {
		return nil
	}
	var r report
	if err := stdjson.Unmarshal(data, &r); err != nil {
		return nil
	}
	return &r
}

func tailFile(path string, n int) string {
	data, err := os.ReadFile(path)
	if err != nil {
		return ""
	}
	// keep the head (the fatal message is printed first) and a bit of the tail
	if len(data) > n {
		head := data[:n*2/3]
		return string(head) + "\n…\n" + string(data[len(data)-n/3:])
	}
	return string(data)
}

// classifyFatal looks at a crashed worker's stderr.
func classifyFatal(log string) string {
	switch {
	case strings.Contains(log, "stack overflow") || strings.Contains(log, "goroutine stack exceeds"):
		return "stack-overflow"
	case strings.Contains(log, "concurrent map"):
		return "concurrent-map"
	case strings.Contains(log, "out of memory"):
		return "out-of-memory"
	case strings.Contains(log, "checkptr"):
		return "checkptr"
	case strings.Contains(log, "fatal error:"):
		return "fatal-error"
	case strings.Contains(log, "panic:"):
		// an unrecovered panic in another goroutine
		i := strings.Index(log, "panic:")
		rest := log[i:]
		if j := strings.Index(rest, "\ngoroutine "); j >= 0 {
			// find first frame
			lines := strings.Split(rest[j:], "\n")
			for _, l := range lines {
				l = strings.TrimSpace(l)
				if strings.HasPrefix(l, LibPrefix) {
					return "panic-in-library"
				}
				if strings.HasPrefix(l, "verif/") || strings.HasPrefix(l, "main.") {
					return "harness"
				}
			}
		}
		return "panic"
	}
	return "died"
}

var _ sync.Mutex

// Package run is the execution framework shared by every property monitor:
// parent/worker process split, per-case journal, panic and hang monitors,
// violation records with known-finding matching, and evidence files.
//
// It deliberately uses only the standard library (encoding/json here is the
// toolchain's classic package, not the library under test).
package run

import (
	"bufio"
	stdjson "encoding/json"
	"fmt"
	"hash/fnv"
	"math/rand/v2"
	"os"
	"path/filepath"
	"runtime"
	"sort"
	"strings"
	"sync"
	"sync/atomic"
	"time"

	"verif/hooks"
)

// LibPrefix is the import path prefix of the library under test; a panic whose
// innermost non-runtime frame lies inside it is a library panic.
const LibPrefix = "github.com/go-json-experiment/json"

// UserPanic is the sentinel that harness-provided "user code" panics with.
// The library is expected to let it propagate; it is never a library defect.
type UserPanic struct{ Tag string }

func (u UserPanic) Error() string { return "verif user panic " + u.Tag }

// Monitor describes one property check.
type Monitor struct {
	ID    string // property id, e.g. "C01"
	Level string // evidence level
	Rule  string // how cases are generated and what makes them distinct/non-trivial
	// Gen produces and executes the cases of one worker shard.
	Gen func(w *W)
	// SelfTest validates the oracle itself (runs in the parent before workers start).
	SelfTest func() error
	// Floors returns the list of unmet non-vacuity floors given merged counters.
	Floors func(c map[string]int64, tier string) []string
	// Assumptions go into the evidence file.
	Assumptions []string
	// Workers overrides the worker count (default: min(16, NumCPU)).
	Workers int
	// HangSeconds overrides the per-case watchdog (default 120 quick / 600 thorough).
	HangSeconds int
	// WorkerEnv returns extra environment variables for worker processes (dir = work dir).
	WorkerEnv func(dir string) []string
	// WorkerBin chooses the executable of a worker shard (default: the running binary); used
	// to run part of the shards under another build of the same program (e.g. without -race).
	WorkerBin func(self string, shard int) string
	// Prepare runs in the parent after the self-test and before workers start
	// (e.g. to compute golden results in fresh processes); an error makes the run inconclusive.
	Prepare func(dir, tier string, seed int64) error
	// Post runs in the parent after workers finished; it may add counters and violations
	// (used for race-log scanning and cross-worker comparisons).
	Post func(p *Parent)

	execs map[string]*execDef
}

type execDef struct {
	newArgs func() any
	run     func(w *W, args any)
}

// Def registers a named, replayable case executor.
func Def[T any](m *Monitor, name string, fn func(w *W, a *T)) {
	if m.execs == nil {
		m.execs = map[string]*execDef{}
	}
	m.execs[name] = &execDef{
		newArgs: func() any { return new(T) },
		run:     func(w *W, args any) { fn(w, args.(*T)) },
	}
}

// Violation is one observed refutation.
type Violation struct {
	Property string            `json:"property"`
	Exec     string            `json:"exec"`
	Sub      string            `json:"sub"` // sub-oracle that fired
	Sig      map[string]string `json:"sig,omitempty"`
	Detail   string            `json:"detail"`
	Case     stdjson.RawMessage `json:"case"`
	Seed     int64             `json:"seed"`
	Tier     string            `json:"tier"`
}

func (v *Violation) key() string {
	ks := make([]string, 0, len(v.Sig))
	for k := range v.Sig {
		ks = append(ks, k)
	}
	sort.Strings(ks)
	var sb strings.Builder
	sb.WriteString(v.Sub)
	for _, k := range ks {
		sb.WriteString("|" + k + "=" + v.Sig[k])
	}
	return sb.String()
}

// W is the per-worker context handed to generators and executors.
type W struct {
	M       *Monitor
	Tier    string
	Seed    int64
	Shard   int
	NShards int
	Replay  bool

	mu       sync.Mutex
	counters map[string]int64
	shapes   map[uint64]struct{}
	shapeCap int
	samples  []any
	viols    []*Violation
	violKeys map[string]int
	nviol    int64
	broken   []string
	evals    int64

	journal *os.File
	curName string
	curArgs []byte
	seq     int64
}

// Thorough reports whether the thorough tier is running.
func (w *W) Thorough() bool { return w.Tier == "thorough" }

// Pick returns q in the quick tier and t in the thorough tier.
func (w *W) Pick(q, t int) int {
	if w.Thorough() {
		return t
	}
	return q
}

// Mine reports whether batch i belongs to this worker's shard.
func (w *W) Mine(i int) bool { return i%w.NShards == w.Shard }

// Rand returns a PRNG that is a pure function of (seed, stream labels).
func (w *W) Rand(labels ...any) *rand.Rand {
	h := fnv.New64a()
	fmt.Fprint(h, w.M.ID, "|", w.Seed)
	for _, l := range labels {
		fmt.Fprint(h, "|", l)
	}
	s := h.Sum64()
	return rand.New(rand.NewPCG(s, s^0x9e3779b97f4a7c15))
}

// Count adds n to a named observation counter.
func (w *W) Count(name string, n int64) {
	w.mu.Lock()
	w.counters[name] += n
	w.mu.Unlock()
}

// Eval counts n evaluated cases (evidence "evaluations").
func (w *W) Eval(n int64) { atomic.AddInt64(&w.evals, n) }

// Shape records the shape key of a non-trivial case (evidence "distinct_nontrivial").
func (w *W) Shape(key string) {
	h := fnv.New64a()
	h.Write([]byte(key))
	w.ShapeHash(h.Sum64())
}

// ShapeHash is Shape for callers that already hold a hash.
func (w *W) ShapeHash(s uint64) {
	w.mu.Lock()
	if len(w.shapes) < w.shapeCap {
		w.shapes[s] = struct{}{}
	} else if _, ok := w.shapes[s]; !ok {
		w.counters["shape_cap_overflow"]++
	}
	w.mu.Unlock()
}

// Sample keeps a few actual cases for the evidence file.
func (w *W) Sample(v any) {
	w.mu.Lock()
	if len(w.samples) < 4 {
		w.samples = append(w.samples, v)
	}
	w.mu.Unlock()
}

// WantSample reports whether more samples are wanted (avoid building them otherwise).
func (w *W) WantSample() bool {
	w.mu.Lock()
	defer w.mu.Unlock()
	return len(w.samples) < 4
}

// Broken records a harness/oracle malfunction: the run is reported as broken
// (exit 2, INCONCLUSIVE), never as a violation.
func (w *W) Broken(format string, a ...any) {
	w.mu.Lock()
	if len(w.broken) < 20 {
		w.broken = append(w.broken, fmt.Sprintf(format, a...))
	}
	w.mu.Unlock()
}

// Violate records a violation for the case being executed.
func (w *W) Violate(sub string, sig map[string]string, format string, a ...any) {
	v := &Violation{Property: w.M.ID, Exec: w.curName, Sub: sub, Sig: sig,
		Detail: fmt.Sprintf(format, a...), Seed: w.Seed, Tier: w.Tier}
	if len(v.Detail) > 4000 {
		v.Detail = v.Detail[:4000] + "…"
	}
	w.mu.Lock()
	defer w.mu.Unlock()
	w.nviol++
	k := v.key()
	w.violKeys[k]++
	if w.violKeys[k] > 3 || len(w.viols) >= 200 {
		return // keep at most 3 witnesses per signature
	}
	v.Case = caseJSON(w.curName, w.curArgs)
	w.viols = append(w.viols, v)
}

func caseJSON(name string, args []byte) stdjson.RawMessage {
	if args == nil {
		args = []byte("null")
	}
	b, _ := stdjson.Marshal(struct {
		Exec string             `json:"exec"`
		Args stdjson.RawMessage `json:"args"`
	}{name, args})
	return b
}

// Do journals and executes one case through the named executor.
func (w *W) Do(name string, args any) {
	def := w.M.execs[name]
	if def == nil {
		panic("run: unknown exec " + name)
	}
	b, err := stdjson.Marshal(args)
	if err != nil {
		panic("run: cannot serialize case: " + err.Error())
	}
	w.seq++
	if w.journal != nil {
		// one write(2) per case so that the line survives a fatal runtime error
		line := make([]byte, 0, len(b)+len(name)+32)
		line = append(line, "B "...)
		line = append(line, name...)
		line = append(line, ' ')
		line = append(line, b...)
		line = append(line, '\n')
		w.journal.Write(line)
	}
	w.curName, w.curArgs = name, b
	w.exec(def, args)
}

// Beat appends a heartbeat to the journal (for long-running block cases).
func (w *W) Beat() {
	if w.journal != nil {
		w.journal.Write([]byte("H\n"))
	}
}

func (w *W) exec(def *execDef, args any) {
	defer func() {
		if r := recover(); r != nil {
			w.onPanic(r)
		}
	}()
	def.run(w, args)
}

// PanicOrigin classifies the innermost non-runtime frame of the current panic.
// It must be called from a deferred function while panicking.
func PanicOrigin() (fn string, lib bool, stack string) {
	pcs := make([]uintptr, 64)
	n := runtime.Callers(2, pcs)
	frames := runtime.CallersFrames(pcs[:n])
	var sb strings.Builder
	first := ""
	afterPanic := false
	for {
		f, more := frames.Next()
		fmt.Fprintf(&sb, "%s\n\t%s:%d\n", f.Function, f.File, f.Line)
		if f.Function == "runtime.gopanic" || f.Function == "runtime.panicmem" ||
			strings.HasPrefix(f.Function, "runtime.panic") || strings.HasPrefix(f.Function, "runtime.goPanic") ||
			f.Function == "runtime.sigpanic" {
			afterPanic = true
			first = ""
		} else if afterPanic && first == "" && (strings.HasPrefix(f.Function, LibPrefix) ||
			strings.HasPrefix(f.Function, "verif/") || strings.HasPrefix(f.Function, "main.")) {
			// standard-library frames between the panic and the first library/harness
			// frame are attributed to whoever called them
			first = f.Function
		}
		if !more {
			break
		}
	}
	return first, strings.HasPrefix(first, LibPrefix), sb.String()
}

func (w *W) onPanic(r any) {
	fn, lib, stack := PanicOrigin()
	if _, ok := r.(UserPanic); ok {
		// harness user code panicked and nobody up-stack recovered: harness bug
		w.Broken("unrecovered UserPanic in %s: %v", w.curName, r)
		return
	}
	msg := fmt.Sprint(r)
	if lib {
		w.Violate("library-panic", map[string]string{"func": fn, "panic": trunc(normalizeDigits(msg), 120)},
			"library panicked: %v\n%s", r, stack)
		return
	}
	w.Broken("harness panic in exec %s (origin %s): %v\ncase=%s\n%s", w.curName, fn, msg, trunc(string(w.curArgs), 600), stack)
}

// Guard runs fn and converts panics: UserPanic → returned as (true, tag);
// library panics → violation; documented misuse panics must be handled by the caller
// with its own recover before reaching here.
func (w *W) Guard(fn func()) (userPanic bool, tag string) {
	defer func() {
		if r := recover(); r != nil {
			if u, ok := r.(UserPanic); ok {
				userPanic, tag = true, u.Tag
				return
			}
			w.onPanic(r)
		}
	}()
	fn()
	return
}

func trunc(s string, n int) string {
	if len(s) > n {
		return s[:n] + "…"
	}
	return s
}

// Trunc shortens s for messages.
func Trunc(s string, n int) string { return trunc(s, n) }

// ---------------------------------------------------------------------------------
// worker report

type report struct {
	Shard    int              `json:"shard"`
	Counters map[string]int64 `json:"counters"`
	Shapes   []uint64         `json:"shapes"`
	Samples  []any            `json:"samples"`
	Viols    []*Violation     `json:"violations"`
	NViol    int64            `json:"nviol"`
	Broken   []string         `json:"broken"`
	Evals    int64            `json:"evals"`
	Done     bool             `json:"done"`
}

func newW(m *Monitor, tier string, seed int64, shard, n int) *W {
	return &W{M: m, Tier: tier, Seed: seed, Shard: shard, NShards: n,
		counters: map[string]int64{}, shapes: map[uint64]struct{}{}, shapeCap: 400000,
		violKeys: map[string]int{}}
}

func (w *W) report() *report {
	r := &report{Shard: w.Shard, Counters: w.counters, Samples: w.samples, Viols: w.viols,
		NViol: w.nviol, Broken: w.broken, Evals: w.evals, Done: true}
	for s := range w.shapes {
		r.Shapes = append(r.Shapes, s)
	}
	return r
}

func workerMain(m *Monitor, tier string, seed int64, shard, n int, dir string) {
	w := newW(m, tier, seed, shard, n)
	j, err := os.OpenFile(filepath.Join(dir, fmt.Sprintf("w%d.journal", shard)), os.O_CREATE|os.O_WRONLY|os.O_APPEND|os.O_TRUNC, 0o644)
	if err != nil {
		fmt.Fprintln(os.Stderr, "journal:", err)
		os.Exit(3)
	}
	w.journal = j
	if hooks.Available {
		hooks.SetReport(func(kind, msg string) {
			w.Violate("hook-"+kind, map[string]string{"kind": kind}, "internal invariant failed at an instrumentation point: %s", msg)
		})
	}
	func() {
		defer func() {
			if r := recover(); r != nil {
				fn, _, stack := PanicOrigin()
				w.Broken("generator panic (origin %s): %v\n%s", fn, r, stack)
			}
		}()
		m.Gen(w)
	}()
	for k, v := range hooks.Snapshot() {
		w.counters["hook_"+k] += v
	}
	if hooks.Available {
		w.counters["hooks_available"] = 1
	}
	j.Write([]byte("DONE\n"))
	j.Close()
	writeJSON(filepath.Join(dir, fmt.Sprintf("w%d.report.json", shard)), w.report())
}

func writeJSON(path string, v any) error {
	f, err := os.Create(path)
	if err != nil {
		return err
	}
	bw := bufio.NewWriter(f)
	enc := stdjson.NewEncoder(bw)
	enc.SetEscapeHTML(false)
	if err := enc.Encode(v); err != nil {
		f.Close()
		return err
	}
	bw.Flush()
	return f.Close()
}

// lastOpenCase returns the last "B" line of a journal that is not followed by DONE.
func lastOpenCase(path string) (name string, args []byte, done bool) {
	data, err := os.ReadFile(path)
	if err != nil {
		return "", nil, false
	}
	lines := strings.Split(strings.TrimRight(string(data), "\n"), "\n")
	for i := len(lines) - 1; i >= 0; i-- {
		l := lines[i]
		if l == "DONE" {
			return "", nil, true
		}
		if strings.HasPrefix(l, "B ") {
			rest := l[2:]
			sp := strings.IndexByte(rest, ' ')
			if sp < 0 {
				return rest, nil, false
			}
			return rest[:sp], []byte(rest[sp+1:]), false
		}
	}
	return "", nil, false
}

var startTime = time.Now()

// SelfRand returns a fixed PRNG for oracle self-tests.
func SelfRand(seed uint64) *rand.Rand { return rand.New(rand.NewPCG(seed, 0x5e1f7e57)) }

// normalizeDigits replaces every run of digits by N so that panic messages that differ
// only in indexes or lengths share one signature.
func normalizeDigits(s string) string {
	var sb strings.Builder
	in := false
	for _, r := range s {
		if r >= '0' && r <= '9' {
			if !in {
				sb.WriteByte('N')
			}
			in = true
			continue
		}
		in = false
		sb.WriteRune(r)
	}
	return sb.String()
}

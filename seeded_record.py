#!/usr/bin/env python3
"""usage: seeded_record.py <first_log> <current_log> [id-regex]
Writes confirmed_by_lead / first_evaluation / current into seeded/<id>/meta.json from seeded_eval.sh logs
(first_log: the evaluation before any strengthening; current_log: the latest evaluation).  Existing
first_evaluation entries are kept."""
import json,re,sys,glob,os
first,cur=sys.argv[1],sys.argv[2]
pat=re.compile(sys.argv[3] if len(sys.argv)>3 else '.')
def parse(path):
    conf={}; res={}
    for l in open(path):
        m=re.match(r'SEEDED (\S+) confirm: suite_failures_with_change=(\d+) demo_without_change=(\S+) demo_with_change=(\S+)',l)
        if m: conf[m.group(1)]={'repo_suite_failures_with_change':int(m.group(2)),'demo_without_change':m.group(3),'demo_with_change':m.group(4)}; continue
        m=re.match(r'SEEDED (\S+) check=(\S+) tier=(\S+) caught=(\S+) rc=(\d+) violations=(\d+) ?(.*)',l)
        if m: res.setdefault(m.group(1),[]).append({'check':m.group(2),'tier':m.group(3),'caught':m.group(4),'violations':int(m.group(6)),'sub_oracles':m.group(7).strip()})
    return conf,res
c1,r1=parse(first); c2,r2=parse(cur)
for mp in sorted(glob.glob('seeded/C*/meta.json')):
    sid=os.path.basename(os.path.dirname(mp))
    if not pat.search(sid): continue
    d=json.load(open(mp))
    conf=c2.get(sid) or c1.get(sid)
    if conf:
        conf=dict(conf); conf['how']=f'CONFIRM=1 ./seeded_eval.sh seeded/{sid} (scratch worktree: patch applies, go build, repo suite clean, demo fails with / passes without the patch)'
        if 'confirmed_by_lead' not in d or sid in c2: d['confirmed_by_lead']=conf
    if 'first_evaluation' not in d and sid in r1:
        missed=[f"{r['check']}/{r['tier']}" for r in r1[sid] if r['caught']!='yes']
        hit=[r for r in r1[sid] if r['caught']=='yes']
        d['first_evaluation']={'missed_by':missed} if missed else {'caught_by':f"{hit[0]['check']}/{hit[0]['tier']}"}
    if sid in r2:
        hit=[r for r in r2[sid] if r['caught']=='yes']
        d['current']=hit[0] if hit else r2[sid][-1]
    json.dump(d,open(mp,'w'),indent=1,ensure_ascii=False)

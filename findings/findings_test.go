// Package findings holds minimal reproducers of the genuine defects found by the monitors
// (DESIGN.md §6).  Each test FAILS while the defect is present and passes once it is repaired:
//
//	. /verif/env.sh && go test ./findings -run F1 -v
package findings

import (
	"bytes"
	stdjson "encoding/json"
	"errors"
	"fmt"
	"io"
	"reflect"
	"testing"
	"time"

	json "github.com/go-json-experiment/json"
	"github.com/go-json-experiment/json/jsontext"
	jsonv1 "github.com/go-json-experiment/json/v1"
)

// F1: a MarshalJSONTo that closes its parent object and opens a sibling passes the
// "exactly one value" check, so Marshal returns nil error with duplicate names.
type f1S struct {
	A f1A `json:"a"`
	B int `json:"b"`
}
type f1A int

func (a f1A) MarshalJSONTo(enc *jsontext.Encoder) error {
	enc.WriteToken(jsontext.Int(int64(a))) // the value of "a"
	enc.WriteToken(jsontext.EndObject)     // closes the PARENT object
	enc.WriteToken(jsontext.BeginObject)   // opens a sibling
	enc.WriteToken(jsontext.String("b"))
	return enc.WriteToken(jsontext.Int(2))
}

func TestF1MarshalPopBelowEntryDepth(t *testing.T) {
	out, err := json.Marshal([]f1S{{A: 1, B: 3}})
	if err == nil {
		t.Fatalf("Marshal returned nil error and %s: user code terminated a container it did not open", out)
	}
}

type f1U struct{ seen []string }

func (u *f1U) UnmarshalJSONFrom(dec *jsontext.Decoder) error {
	// reads its own value, the parent's EndObject, the next BeginObject and one name+value
	for i := 0; i < 5; i++ {
		tok, err := dec.ReadToken()
		if err != nil {
			return err
		}
		u.seen = append(u.seen, tok.Kind().String())
	}
	return nil
}

func TestF1UnmarshalPopBelowEntryDepth(t *testing.T) {
	var v []struct {
		X f1U `json:"x"`
		Y int `json:"y"`
	}
	err := json.Unmarshal([]byte(`[{"x":1},{"x":2,"y":3}]`), &v)
	if err == nil {
		t.Fatalf("Unmarshal returned nil although the user method consumed tokens of two sibling objects: %+v", v)
	}
}

// F2: v1.Indent with a non-blank prefix rewrites spaces of the trailing whitespace copied from src.
func TestF2IndentTrailingWhitespace(t *testing.T) {
	src := []byte(" {\"a\":1}\n ")
	var got, want bytes.Buffer
	if err := jsonv1.Indent(&got, src, ">", "\t"); err != nil {
		t.Fatal(err)
	}
	if err := stdjson.Indent(&want, src, ">", "\t"); err != nil {
		t.Fatal(err)
	}
	if got.String() != want.String() {
		t.Fatalf("v1.Indent = %q, encoding/json.Indent = %q", got.String(), want.String())
	}
}

// F3: `,string` on a Go string under v1 semantics: "null" and "\"null\"".
func TestF3StringTagNull(t *testing.T) {
	type T struct {
		S string `json:",string"`
	}
	for _, in := range []string{`{"S":"null"}`, `{"S":"\"null\""}`, `{"S":"\"x\""}`} {
		got, want := T{S: "pre"}, T{S: "pre"}
		errGot := jsonv1.Unmarshal([]byte(in), &got)
		errWant := stdjson.Unmarshal([]byte(in), &want)
		if (errGot == nil) != (errWant == nil) || (errGot == nil && got != want) {
			t.Errorf("%s: v1 = %+v, %v; encoding/json = %+v, %v", in, got, errGot, want, errWant)
		}
	}
}

// F4: cycles that add no JSON nesting depth must be reported, not recursed into forever.
// (Before the fix this test dies with a fatal stack overflow rather than failing.)
func TestF4DepthFreeCycles(t *testing.T) {
	var ip any
	ip = &ip
	if _, err := json.Marshal(ip); err == nil {
		t.Error("Marshal(ip = &ip) returned nil error")
	}
	type P *P
	var p P
	p = &p
	if _, err := json.Marshal(p); err == nil {
		t.Error("Marshal(type P *P self-cycle) returned nil error")
	}
	if _, err := jsonv1.Marshal(ip); err == nil {
		t.Error("v1.Marshal(ip = &ip) returned nil error")
	}
}

// F5: where an object name is required, a malformed literal is lexed before the grammar is
// consulted, so ByteOffset points inside the token although `{f` is no viable prefix.
func TestF5OffsetAtNamePosition(t *testing.T) {
	for _, in := range []string{`{f}`, `{-"x"`, `{"a":1,tx`, `{nul`} {
		brace := bytes.LastIndexAny([]byte(in), "{,") + 1 // start of the offending token
		d := jsontext.NewDecoder(bytes.NewReader([]byte(in)))
		var err error
		for err == nil {
			_, err = d.ReadToken()
		}
		var se *jsontext.SyntacticError
		if !errors.As(err, &se) {
			t.Errorf("%q: not a SyntacticError: %v", in, err)
			continue
		}
		if se.ByteOffset != int64(brace) {
			t.Errorf("%q: ByteOffset=%d, but %q is not a viable JSON prefix (want %d)", in, se.ByteOffset, in[:se.ByteOffset], brace)
		}
	}
	// ReadValue at a name position (as the map arshaler reads keys): a container is lexed first
	d := jsontext.NewDecoder(bytes.NewReader([]byte(`{{"\x":1}:2}`)))
	d.ReadToken()
	_, err := d.ReadValue()
	var se *jsontext.SyntacticError
	if !errors.As(err, &se) || se.ByteOffset != 1 {
		t.Errorf("ReadValue of an object at a name position: %v, want a SyntacticError at offset 1", err)
	}
}

// F11 (unmarshal twin of F4): unmarshaling any non-null input into a target that is a
// depth-free pointer/interface cycle recursed until fatal stack overflow.
func TestF11UnmarshalIntoDepthFreeCycle(t *testing.T) {
	var ip any
	ip = &ip
	if err := json.Unmarshal([]byte(`1`), &ip); err == nil && ip == any(&ip) {
		t.Error("Unmarshal into ip = &ip neither failed nor replaced the cycle")
	}
	type P *P
	var p P
	p = &p
	if err := json.Unmarshal([]byte(`1`), &p); err == nil {
		t.Error("Unmarshal into type P *P self-cycle returned nil error")
	}
}

// F12: "the coder cannot be reset from within" failed after a nested user call: the
// wrappers cleared WithinArshalCall on return instead of restoring the previous value.
type f12Inner struct{}

func (f12Inner) MarshalJSONTo(e *jsontext.Encoder) error {
	return e.WriteToken(jsontext.String("inner"))
}

type f12Outer struct{ panicked *bool }

func (o f12Outer) MarshalJSONTo(e *jsontext.Encoder) (err error) {
	if err := json.MarshalEncode(e, f12Inner{}); err != nil {
		return err
	}
	defer func() {
		if r := recover(); r != nil {
			*o.panicked = true
		}
	}()
	e.Reset(new(bytes.Buffer)) // documented to panic inside MarshalJSONTo
	return nil
}

func TestF12ResetAfterNestedCall(t *testing.T) {
	var panicked bool
	json.Marshal([]f12Outer{{&panicked}})
	if !panicked {
		t.Fatal("Encoder.Reset inside MarshalJSONTo did not panic after a nested MarshalEncode of a type with MarshalJSONTo")
	}
}

// F13: AppendRaw handed the live encoder buffer to the user's AppendText and trusted the
// returned slice to be an extension of it.
type f13A struct{ Mode, Out string }

func (a f13A) AppendText(b []byte) ([]byte, error) {
	switch a.Mode {
	case "drop":
		return []byte(a.Out), nil
	case "trunc":
		return append(b[:max(0, len(b)-3)], a.Out...), nil
	}
	return append(b, a.Out...), nil
}

func TestF13AppendTextContract(t *testing.T) {
	for _, v := range []any{
		[]f13A{{"", "x"}, {"drop", "y"}},
		[]f13A{{"", "x"}, {"drop", "yyyyyyyyyyyy"}},
		map[string]f13A{"k": {"drop", `yyyyyyyyyyyy"`}},
		[]any{"abcdef", f13A{"trunc", "y"}},
	} {
		func() {
			defer func() {
				if r := recover(); r != nil {
					t.Errorf("Marshal(%+v) panicked: %v", v, r)
				}
			}()
			out, err := json.Marshal(v)
			if err == nil && !stdjson.Valid(out) {
				t.Errorf("Marshal(%+v) = %s with nil error: not JSON", v, out)
			}
		}()
	}
}

// F14: MarshalEncode/UnmarshalDecode may switch AllowDuplicateNames true->false at a member
// VALUE position; the enclosing object has no namespace, and user code that then writes
// (reads) a second token made the name path index an empty namespace stack: library panic.
type f14Two struct{}

func (f14Two) MarshalJSONTo(e *jsontext.Encoder) error {
	e.WriteToken(jsontext.String("v"))
	return e.WriteToken(jsontext.String("oops"))
}

type f14Read struct{}

func (*f14Read) UnmarshalJSONFrom(d *jsontext.Decoder) error {
	d.ReadToken()
	_, err := d.ReadToken()
	return err
}

func TestF14SwitchDuplicateNamesInsideObject(t *testing.T) {
	defer func() {
		if r := recover(); r != nil {
			t.Fatalf("library panicked: %v", r)
		}
	}()
	var bb bytes.Buffer
	enc := jsontext.NewEncoder(&bb, jsontext.AllowDuplicateNames(true))
	enc.WriteToken(jsontext.BeginObject)
	enc.WriteToken(jsontext.String("k"))
	if err := json.MarshalEncode(enc, f14Two{}, jsontext.AllowDuplicateNames(false)); err == nil {
		t.Error("MarshalEncode returned nil for a method that wrote two values")
	}
	dec := jsontext.NewDecoder(bytes.NewReader([]byte(`{"k":"v","k2":1}`)), jsontext.AllowDuplicateNames(true))
	dec.ReadToken()
	dec.ReadToken()
	var r f14Read
	if err := json.UnmarshalDecode(dec, &r, jsontext.AllowDuplicateNames(false)); err == nil {
		t.Error("UnmarshalDecode returned nil for a method that read two values")
	}
}

// F16: the "{}"/"[]" fast paths for empty maps and slices never consulted the depth limit:
// 10001 nested containers whose innermost is empty marshaled without error.
func TestF16DepthLimitEmptyInnermost(t *testing.T) {
	for _, inner := range []any{[]any{}, map[string]any{}} {
		v := inner
		for i := 1; i < 10001; i++ {
			v = []any{v}
		}
		out, err := json.Marshal(v)
		if err == nil {
			t.Errorf("Marshal of 10001 nested containers (innermost %T) returned nil error; IsValid(out)=%v", inner, jsontext.Value(out).IsValid())
		}
		v = inner
		for i := 1; i < 10000; i++ {
			v = []any{v}
		}
		if _, err := json.Marshal(v); err != nil {
			t.Errorf("Marshal of 10000 nested containers failed: %v", err)
		}
	}
	type M map[string]M
	m := M{}
	for i := 1; i < 10001; i++ {
		m = M{"k": m}
	}
	if _, err := json.Marshal(m); err == nil {
		t.Error("Marshal of 10001 nested typed maps (innermost empty) returned nil error")
	}
	type S []S
	s := S{}
	for i := 1; i < 10001; i++ {
		s = S{s}
	}
	if _, err := json.Marshal(s); err == nil {
		t.Error("Marshal of 10001 nested typed slices (innermost empty) returned nil error")
	}
}

// F17: Decoder.ReadValue over a chunked reader: consumeObject kept a slice of the member name
// pointing into the decode buffer across fetches that compact the buffer, so the JSONPointer
// of an error raised deeper inside the value named the enclosing member with stale bytes.
type f17Chunks struct {
	data []byte
	pos  int
	n    int
}

func (c *f17Chunks) Read(p []byte) (int, error) {
	if c.pos >= len(c.data) {
		return 0, io.EOF
	}
	n := min(c.n, len(p), len(c.data)-c.pos)
	copy(p, c.data[c.pos:c.pos+n])
	c.pos += n
	return n, nil
}

func TestF17StaleNameInErrorPointer(t *testing.T) {
	in := []byte(`-0 {"outer":{"x":null,"dup":[],"dup":1e308},"y":[[],[]]}`)
	const want = "/outer/dup"
	for n := 1; n <= len(in); n++ {
		d := jsontext.NewDecoder(&f17Chunks{data: in, n: n})
		var err error
		for err == nil {
			_, err = d.ReadValue()
		}
		var se *jsontext.SyntacticError
		if !errors.As(err, &se) {
			t.Fatalf("chunk size %d: %v", n, err)
		}
		if string(se.JSONPointer) != want {
			t.Errorf("chunk size %d: JSONPointer = %q, want %q", n, se.JSONPointer, want)
		}
	}
}

// F18: a nil *Marshalers / *Unmarshalers ("equivalent to an empty list"; JoinMarshalers()
// without arguments returns nil) made Marshal/Unmarshal dereference nil as soon as an
// interface-typed value was met.
func TestF18NilMarshalersOption(t *testing.T) {
	defer func() {
		if r := recover(); r != nil {
			t.Fatalf("library panicked: %v", r)
		}
	}()
	if _, err := json.Marshal(struct{ X any }{1}, json.WithMarshalers(nil)); err != nil {
		t.Error(err)
	}
	if _, err := json.Marshal(struct{ X any }{1}, json.WithMarshalers(json.JoinMarshalers())); err != nil {
		t.Error(err)
	}
	var v struct{ X any }
	if err := json.Unmarshal([]byte(`{"X":1}`), &v, json.WithUnmarshalers(nil)); err != nil {
		t.Error(err)
	}
}

// F15: a caller-held coder is used again after a MarshalEncode/UnmarshalDecode call that was
// given a per-call AllowDuplicateNames different from the coder's own and failed inside an
// object: the library panicked with index errors instead of returning errors.
type f15FailWriter struct{ n int }

func (f *f15FailWriter) Write(p []byte) (int, error) {
	if f.n >= len(p) {
		f.n -= len(p)
		return len(p), nil
	}
	n := f.n
	f.n = 0
	return n, errors.New("write fault")
}

func f15NoPanic(t *testing.T, what string, fn func()) {
	t.Helper()
	defer func() {
		if r := recover(); r != nil {
			t.Errorf("%s: library panicked: %v", what, r)
		}
	}()
	fn()
}

func TestF15ReuseAfterFailedCallWithOtherDuplicateNames(t *testing.T) {
	// (a) encoder allows duplicates, the failing call does not: stale name offset
	e := jsontext.NewEncoder(&f15FailWriter{n: 43}, jsontext.AllowDuplicateNames(true))
	e.WriteToken(jsontext.BeginObject)
	e.WriteToken(jsontext.String("p0"))
	e.WriteToken(jsontext.BeginArray)
	v := struct {
		A   map[string]int
		B   []any
		Bad any
	}{map[string]int{"k": 1}, []any{1.0, map[string]any{"q": nil}}, "fine"}
	if err := json.MarshalEncode(e, v, json.Deterministic(true), jsontext.EscapeForHTML(true), jsontext.AllowDuplicateNames(false)); err == nil {
		t.Fatal("the write fault was not reported")
	}
	f15NoPanic(t, "WriteToken after failed MarshalEncode", func() { e.WriteToken(jsontext.String("n")) })
	f15NoPanic(t, "StackPointer after failed MarshalEncode", func() { _ = e.StackPointer() })

	// (b) decoder rejects duplicates, the failing call allows them: namespace stack too short
	d := jsontext.NewDecoder(bytes.NewReader([]byte(`{"p0":{"A":"a","Bad":"str","Z":{"after":[1]}},"q":[2]}`)))
	d.ReadToken()
	d.ReadToken()
	var tgt struct {
		A   string
		Bad int
	}
	if err := json.UnmarshalDecode(d, &tgt, jsontext.AllowDuplicateNames(true)); err == nil {
		t.Fatal("the type mismatch was not reported")
	}
	f15NoPanic(t, "reads after failed UnmarshalDecode", func() {
		for i := 0; i < 12; i++ {
			if _, err := d.ReadToken(); err != nil {
				break
			}
		}
	})

	// (c) encoder rejects duplicates, the failing call allows them
	var buf bytes.Buffer
	e = jsontext.NewEncoder(&buf)
	e.WriteToken(jsontext.BeginObject)
	e.WriteToken(jsontext.String("p0"))
	m := map[string]any{"a": map[string]any{"bad": make(chan int)}}
	if err := json.MarshalEncode(e, m, jsontext.AllowDuplicateNames(true)); err == nil {
		t.Fatal("the unsupported value was not reported")
	}
	f15NoPanic(t, "closing tokens after failed MarshalEncode", func() {
		for i := 0; i < 4; i++ {
			e.WriteToken(jsontext.Null)
			e.WriteToken(jsontext.EndObject)
		}
	})
}

// F19: Float(2^63).Int() and Float(2^64).Uint() saturate but report no error although the
// number is an integer outside the range of the destination.
func TestF19TokenIntRangeAtFloatBoundary(t *testing.T) {
	if v, err := jsontext.Float(9223372036854775808.0).Int(); err == nil {
		t.Errorf("Float(2^63).Int() = %d, nil; want a range error", v)
	}
	if v, err := jsontext.Float(18446744073709551616.0).Uint(); err == nil {
		t.Errorf("Float(2^64).Uint() = %d, nil; want a range error", v)
	}
	if v, err := jsontext.Float(-9223372036854775808.0).Int(); err != nil || v != -9223372036854775808 {
		t.Errorf("Float(-2^63).Int() = %d, %v; want the exact value", v, err)
	}
}

// ---- C09 divergences repaired in /repo: each test compares v1 with the toolchain's encoding/json

type f20E struct{ AB int }
type f20S struct {
	f20E
	Ab int
}

// F20: no exact match, several case-insensitive candidates at different embedding depths.
func TestF20FoldCandidateOrder(t *testing.T) {
	var a, b f20S
	e1, e2 := stdjson.Unmarshal([]byte(`{"ab":1}`), &a), jsonv1.Unmarshal([]byte(`{"ab":1}`), &b)
	if (e1 == nil) != (e2 == nil) || a != b {
		t.Errorf("classic %+v %v, v1 %+v %v", a, e1, b, e2)
	}
}

type f23K string

func (k f23K) MarshalText() ([]byte, error) { return []byte("TEXT:" + string(k)), nil }

// F23: map key of kind string with a MarshalText method.
func TestF23TextMethodOnStringKindMapKey(t *testing.T) {
	v := map[f23K]int{"a": 1}
	b1, e1 := stdjson.Marshal(v)
	b2, e2 := jsonv1.Marshal(v)
	if (e1 == nil) != (e2 == nil) || string(b1) != string(b2) {
		t.Errorf("classic %s %v, v1 %s %v", b1, e1, b2, e2)
	}
}

// F26: `,string` on a Go string whose inner text holds an unpaired surrogate escape.
func TestF26StringTagInnerLoneSurrogate(t *testing.T) {
	type S struct {
		S string `json:",string"`
	}
	for _, in := range []string{`{"S":"\"\\ud800\""}`, `{"S":"\"\\u0061\""}`} {
		var a, b S
		e1, e2 := stdjson.Unmarshal([]byte(in), &a), jsonv1.Unmarshal([]byte(in), &b)
		if (e1 == nil) != (e2 == nil) || a != b {
			t.Errorf("%s: classic %+q %v, v1 %+q %v", in, a, e1, b, e2)
		}
	}
}

// F27: a time string spelled with an escape sequence.
func TestF27TimeStringWithEscape(t *testing.T) {
	in := []byte(`"2006-01-02T15:04:05\u005a"`)
	var a, b time.Time
	e1, e2 := stdjson.Unmarshal(in, &a), jsonv1.Unmarshal(in, &b)
	if (e1 == nil) != (e2 == nil) {
		t.Errorf("classic err=%v, v1 err=%v", e1, e2)
	}
}

type f28K struct{ V string }

func (j *f28K) UnmarshalJSON(b []byte) error { j.V = "J" + string(b); return nil }
func (j *f28K) UnmarshalText(b []byte) error { j.V = "T" + string(b); return nil }

// F28: map key type with both UnmarshalJSON and UnmarshalText.
func TestF28MapKeyTypeWithUnmarshalJSON(t *testing.T) {
	var a, b map[f28K]int
	e1, e2 := stdjson.Unmarshal([]byte(`{"k":1}`), &a), jsonv1.Unmarshal([]byte(`{"k":1}`), &b)
	if (e1 == nil) != (e2 == nil) || fmt.Sprint(a) != fmt.Sprint(b) {
		t.Errorf("classic %v %v, v1 %v %v", a, e1, b, e2)
	}
}

type f29K struct{ V string }

func (t *f29K) MarshalText() ([]byte, error) { return []byte("k:" + t.V), nil }

// F29: a map type whose key needs a pointer-receiver text method; classic rejects the type even for a nil map.
func TestF29MapKeyPointerReceiverTextMethod(t *testing.T) {
	for _, m := range []map[f29K]int{nil, {}, {{"a"}: 1}} {
		b1, e1 := stdjson.Marshal(m)
		b2, e2 := jsonv1.Marshal(m)
		if (e1 == nil) != (e2 == nil) || string(b1) != string(b2) {
			t.Errorf("%v: classic %s %v, v1 %s %v", m, b1, e1, b2, e2)
		}
	}
}

type f30K string

func (k f30K) MarshalText() ([]byte, error) { return []byte("k:" + string(k)), nil }

// F30: Deterministic(true) with distinct keys whose emitted names are equal.
func TestF30DeterministicTiedNames(t *testing.T) {
	opts := []json.Options{json.Deterministic(true), jsontext.AllowInvalidUTF8(true), jsontext.AllowDuplicateNames(true)}
	seen := map[string]bool{}
	for rep := 0; rep < 200; rep++ {
		m := map[f30K]int{}
		for i := 0; i < 6; i++ {
			m[f30K(fmt.Sprintf("t%d\xff", (i+rep)%6))], m[f30K(fmt.Sprintf("t%d\xfe", (i+rep)%6))] = 1, 2
		}
		b, err := json.Marshal(m, opts...)
		if err != nil {
			t.Fatal(err)
		}
		seen[string(b)] = true
	}
	if len(seen) != 1 {
		t.Errorf("Deterministic(true) produced %d different outputs for equal maps", len(seen))
	}
}

// F7 / F10: `string` option quirks of v1 against classic encoding/json (both repaired).
func TestF7F10QuotedNullAndPlusUnderStringOption(t *testing.T) {
	type S struct {
		P *[]int       `json:",string"`
		Q *map[int]int `json:",string"`
		N int          `json:",string"`
		I *int         `json:",string"`
	}
	for _, in := range []string{`{"P":"null"}`, `{"Q":"null"}`, `{"I":"null"}`, `{"N":"+1"}`, `{"N":"1"}`, `{"I":"+7"}`, `{"N":"-0"}`} {
		mk := func() *S { i := 5; return &S{P: &[]int{1}, Q: &map[int]int{1: 1}, I: &i, N: 3} }
		a, b := mk(), mk()
		e1 := stdjson.Unmarshal([]byte(in), a)
		e2 := jsonv1.Unmarshal([]byte(in), b)
		if (e1 == nil) != (e2 == nil) || (e1 == nil && !reflect.DeepEqual(a, b)) {
			t.Errorf("%s: classic %+v %v, v1 %+v %v", in, a, e1, b, e2)
		}
	}
}

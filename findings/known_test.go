package findings

// Reproducers of the KNOWN (recorded, not repaired) findings.  They FAIL while the finding
// stands; to keep `go test ./findings` green they only run with VERIF_SHOW_KNOWN=1:
//
//	. /verif/env.sh && VERIF_SHOW_KNOWN=1 go test ./findings -run Known -v

import (
	"bytes"
	stdjson "encoding/json"
	"os"
	"strings"
	"testing"

	json "github.com/go-json-experiment/json"
	jsonv1 "github.com/go-json-experiment/json/v1"
)

func showKnown(t *testing.T) {
	t.Helper()
	if os.Getenv("VERIF_SHOW_KNOWN") != "1" {
		t.Skip("known finding; set VERIF_SHOW_KNOWN=1 to demonstrate it")
	}
}

// F6: a struct type embedded along two paths; the fields promoted from beneath it are tied
// (same depth, no tag) and the documented rule drops tied fields, but the second occurrence
// is never expanded, so the first one wins.
type f6Deep struct{ Z int }
type f6Mid struct {
	f6Deep
	Y int
}
type f6L struct{ f6Mid }
type f6R struct{ f6Mid }
type f6Outer struct {
	f6L
	f6R
}

func TestKnownF6DiamondEmbedding(t *testing.T) {
	showKnown(t)
	out, err := json.Marshal(f6Outer{})
	if err != nil {
		t.Fatal(err)
	}
	if string(out) != `{}` {
		t.Errorf("Marshal(Outer{}) = %s; by the documented rules Y and Z are both tied between L.Mid and R.Mid and dropped: want {}", out)
	}
}

// ---- C09: v1 differs from the toolchain's encoding/json (recorded, see known_findings.json)

// F8: ill-formed UTF-8 in a Go string: `\ufffd` escape (classic) vs raw U+FFFD (v1).
func TestKnownF8(t *testing.T) {
	showKnown(t)
	b1, _ := stdjson.Marshal("a\xffb")
	b2, _ := jsonv1.Marshal("a\xffb")
	if string(b1) != string(b2) {
		t.Errorf("classic %q, v1 %q", b1, b2)
	}
}

type f21TM struct{ V string }

func (t f21TM) MarshalText() ([]byte, error) { return []byte(t.V), nil }

// F21: order of text keys with ill-formed UTF-8.
func TestKnownF21(t *testing.T) {
	showKnown(t)
	v := map[f21TM]int{{"\xed\xa0\x80z"}: 1, {"\xff"}: 2}
	b1, _ := stdjson.Marshal(v)
	b2, _ := jsonv1.Marshal(v)
	norm := func(b []byte) string { return strings.ReplaceAll(string(b), `\ufffd`, "\ufffd") }
	if norm(b1) != norm(b2) {
		t.Errorf("classic %s, v1 %s", b1, b2)
	}
}

type f22M struct{}

func (f22M) MarshalJSON() ([]byte, error) { return []byte("\"\u2028<\""), nil }

// F22: U+2028 inside MarshalJSON output with SetEscapeHTML(false).
func TestKnownF22(t *testing.T) {
	showKnown(t)
	var b1, b2 bytes.Buffer
	e1, e2 := stdjson.NewEncoder(&b1), jsonv1.NewEncoder(&b2)
	e1.SetEscapeHTML(false)
	e2.SetEscapeHTML(false)
	e1.Encode([]any{f22M{}})
	e2.Encode([]any{f22M{}})
	if b1.String() != b2.String() {
		t.Errorf("classic %q, v1 %q", b1.String(), b2.String())
	}
}

type f24J string

func (s *f24J) UnmarshalJSON(b []byte) error { *s = f24J(b); return nil }

// F24: `,string` on a basic-kind type with UnmarshalJSON.
func TestKnownF24(t *testing.T) {
	showKnown(t)
	type S struct {
		J f24J `json:",string"`
	}
	for _, in := range []string{`{"J":"x"}`, `{"J":1}`} {
		var a, b S
		e1, e2 := stdjson.Unmarshal([]byte(in), &a), jsonv1.Unmarshal([]byte(in), &b)
		if (e1 == nil) != (e2 == nil) || a != b {
			t.Errorf("%s: classic %+q %v, v1 %+q %v", in, a, e1, b, e2)
		}
	}
}

// F25: json.Number with `,string`: classic does not validate the quoted text.
func TestKnownF25(t *testing.T) {
	showKnown(t)
	for _, in := range []string{`"1 "`, `"null"`, `"0x1"`} {
		a := struct {
			N stdjson.Number `json:",string"`
		}{"7"}
		b := struct {
			N jsonv1.Number `json:",string"`
		}{"7"}
		e1, e2 := stdjson.Unmarshal([]byte(`{"N":`+in+`}`), &a), jsonv1.Unmarshal([]byte(`{"N":`+in+`}`), &b)
		if (e1 == nil) != (e2 == nil) || string(a.N) != string(b.N) {
			t.Errorf("%s: classic %q %v, v1 %q %v", in, a.N, e1, b.N, e2)
		}
	}
}

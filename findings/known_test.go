package findings

// Reproducers of the KNOWN (recorded, not repaired) findings.  They FAIL while the finding
// stands; to keep `go test ./findings` green they only run with VERIF_SHOW_KNOWN=1:
//
//	. /verif/env.sh && VERIF_SHOW_KNOWN=1 go test ./findings -run Known -v

import (
	"os"
	"testing"

	json "github.com/go-json-experiment/json"
)

func showKnown(t *testing.T) {
	t.Helper()
	if os.Getenv("VERIF_SHOW_KNOWN") != "1" {
		t.Skip("known finding; set VERIF_SHOW_KNOWN=1 to demonstrate it")
	}
}

// F6: a struct type embedded along two paths; the fields promoted from beneath it are tied
// (same depth, no tag) and the documented rule drops tied fields, but the second occurrence
// is never expanded, so the first one wins.
type f6Deep struct{ Z int }
type f6Mid struct {
	f6Deep
	Y int
}
type f6L struct{ f6Mid }
type f6R struct{ f6Mid }
type f6Outer struct {
	f6L
	f6R
}

func TestKnownF6DiamondEmbedding(t *testing.T) {
	showKnown(t)
	out, err := json.Marshal(f6Outer{})
	if err != nil {
		t.Fatal(err)
	}
	if string(out) != `{}` {
		t.Errorf("Marshal(Outer{}) = %s; by the documented rules Y and Z are both tied between L.Mid and R.Mid and dropped: want {}", out)
	}
}

#!/bin/bash
# usage: ./tools_coverage.sh [Cxx ...]      (default: all checks)   TIER=quick|thorough
# Statement coverage of the LIBRARY under each check's workload (never decides a verdict):
# builds cmd/<id> with -cover -coverpkg=<library packages>, runs the tier, converts the
# counters with `go tool covdata`, and writes
#   work/cov/<id>.txt        textfmt profile of that check
#   work/cov/SUMMARY.txt     per check: statements reached per library file
#   work/cov/UNREACHED.txt   library blocks no check reached (union) — where a change could hide
cd "$(dirname "$0")"; VERIF_DIR="$(pwd)"; export VERIF_DIR
. ./env.sh
ids=("$@"); [ ${#ids[@]} -eq 0 ] && ids=(C01 C02 C03 C04 C05 C06 C07 C08 C09 C10 C11 C12 C13 C14 C15 C16 C17 C19 C20 C18)
mkdir -p work/cov/bin
PK=github.com/go-json-experiment/json
for id in "${ids[@]}"; do
  lc=$(echo "$id" | tr 'A-Z' 'a-z')
  data="$VERIF_DIR/work/cov/data-$lc"; rm -rf "$data"; mkdir -p "$data"
  go build -cover -coverpkg=all -tags verif -o "work/cov/bin/$lc" "./cmd/$lc" || { echo "$id: cover build failed"; continue; }
  GOCOVERDIR="$data" VERIF_HOOKS=on VERIF_OUT="$VERIF_DIR/work/cov/out" VERIF_WORK="$VERIF_DIR/work/cov/work" "work/cov/bin/$lc" "${TIER:-quick}" > "work/cov/$id.log" 2>&1
  echo "$id rc=$? $(grep -c '^VIOLATION' work/cov/$id.log) violations"
  go tool covdata textfmt -i="$data" -o "work/cov/$id.txt" 2>/dev/null
  rm -rf "$data"
done
python3 - <<'EOF'
import glob,collections,re,os
tot={}           # block -> nstmt
hit=collections.defaultdict(set)   # block -> set(check)
per=collections.defaultdict(lambda: collections.Counter())
for f in sorted(glob.glob('work/cov/C*.txt')):
    cid=os.path.basename(f)[:-4]
    for l in open(f):
        if l.startswith('mode:'): continue
        m=re.match(r'(\S+):(\S+) (\d+) (\d+)$',l.strip())
        if not m: continue
        blk=(m.group(1),m.group(2)); n=int(m.group(3)); c=int(m.group(4))
        if 'go-json-experiment/json' not in blk[0] or 'verif_on' in blk[0] or '_test' in blk[0] or '/jsontest' in blk[0] or '/zstd' in blk[0]: continue
        tot[blk]=n
        if c>0: hit[blk].add(cid)
files=collections.Counter(); fhit=collections.Counter()
for b,n in tot.items():
    files[b[0]]+=n
    if hit[b]: fhit[b[0]]+=n
with open('work/cov/SUMMARY.txt','w') as o:
    o.write('union of all checks run: statements reached / total per library file\n')
    for f in sorted(files):
        o.write(f'{fhit[f]:6d}/{files[f]:6d} {100*fhit[f]/files[f]:5.1f}%  {f}\n')
    o.write(f'TOTAL {sum(fhit.values())}/{sum(files.values())}\n\nper check (statements reached):\n')
    checks=sorted({c for s in hit.values() for c in s})
    for c in checks:
        n=sum(tot[b] for b in tot if c in hit[b])
        o.write(f'{c} {n}\n')
with open('work/cov/UNREACHED.txt','w') as o:
    for b in sorted(tot, key=lambda b:(b[0],[int(x) for x in re.split(r'[.,]',b[1])])):
        if not hit[b]: o.write(f'{b[0]}:{b[1]} stmts={tot[b]}\n')
print(open('work/cov/SUMMARY.txt').read())
EOF

#!/usr/bin/env python3
"""Regenerates MANIFEST.json from the table below (edit here, run, commit)."""
import json, os, subprocess

CHECKS = {
 # id: (level, technique, level_text, level_note, design_ref)
 "C01": ("exploration", "reference-model runtime monitor (independent RFC 8259/7493 recognizer) over exhaustive short strings + generated/mutated/targeted texts, 4 option configs x 4 entry points",
         "Every explored text is decided by an independent recognizer and compared with IsValid, the value-wise and token-wise Decoder and Unmarshal under all four option combinations; all strings over a 33-byte critical alphabet and a 30-fragment lexical alphabet up to length 4 (quick) / 5 (thorough) are enumerated exhaustively, the rest is seeded exploration. Held on what was executed, not a proof.",
         "trusted base: /verif/ref recognizer and tokenizer (self-tested each run against the toolchain's encoding/json.Valid); depth limit and float64-overflow clause taken from the docs",
         "DESIGN.md §4 C01"),
 "C05": ("fault_enumeration", "differential runtime monitor: same call script over the whole input vs over chunked/faulty readers (explicit cut and transient-fault schedules, enumerated exhaustively for short inputs), event logs compared; conservation law after every call; hook shadow-check of the decode buffer",
         "Every case runs a ReadToken/ReadValue/SkipValue/PeekKind script twice - whole input at once and through a reader with an explicit schedule of cuts, empty reads, data+EOF and transient faults - and compares the complete event logs (token text, offsets, depth, every stack index, stack pointer, error class+offset+pointer); after every call input[:InputOffset]++UnreadBuffer must equal the bytes handed out; transient faults must leave all observable state unchanged and the retried identical call must continue. All single cuts, all cut pairs and all fault positions of the short corpus are enumerated; larger inputs get seeded random schedules. UnmarshalRead and UnmarshalDecode are compared with Unmarshal.",
         "reference run = same API over a bytes.Buffer (its events are checked against /verif/ref by C16); SkipValue is not required to be retry-atomic; hooks (tag verif) add a shadow check that the decode buffer equals the stream after every compaction/growth",
         "DESIGN.md §4 C05"),
 "C16": ("exploration", "reference-model runtime monitor: independent tokenizer/prefix analyzer predicts offsets, stack depth/index/pointer after every coder call and the admissible location of every syntactic error; planted conversion failures give exact ground truth for semantic errors",
         "After every Decoder and Encoder call in generated scripts the offsets, StackDepth, every StackIndex and StackPointer are compared with an independent tokenizer; Pointer methods are checked against RFC 6901 on generated token lists; every rejected text is sent through the token, value, skip, Unmarshal and UnmarshalRead paths (several chunk sizes) and ByteOffset/JSONPointer must lie in the set the property allows, exactly for duplicate names; conversion failures planted at known paths in generated types must be reported with exactly that pointer and offset.",
         "trusted base: /verif/ref tokenizer and prefix analyzer; OutputOffset is taken to include the newline after a completed top-level value",
         "DESIGN.md §4 C16"),
 "C02": ("exploration", "output-validity runtime monitor: every nil-error Marshal/MarshalWrite/MarshalEncode output is parsed by an independent reference parser under the effective options while adversarial user marshalers execute behaviour scripts; panic monitor",
         "Generated Go types with adversarial user-defined marshalers (methods and functions that return arbitrary bytes, write 0/1/2 values, leave containers open, close the parent and reopen a sibling, emit duplicates or ill-formed UTF-8, return ErrUnsupported late, fail midway) are marshaled through 8 entry routes under random option sets; whenever the error is nil the delivered bytes must be exactly one JSON value valid under the effective options (reference parser), and inside a caller-held Encoder exactly one value must have been added at the entry depth. Library panics are violations.",
         "trusted base: /verif/ref parser; the effective options are computed by the harness from the option list (last wins)",
         "DESIGN.md §4 C02"),
 "C03": ("exploration", "reference-model + route-agreement runtime monitor: untyped decoding by 14+ routes compared bit-exactly with an independent parse tree (math/big number rounding) after the input buffer was overwritten",
         "Valid-by-construction texts, structure extremes and string-interning stress documents are decoded into any / map[string]any / []any / named interfaces / typed leaves through Unmarshal, UnmarshalRead (several reader schedules), UnmarshalDecode inside a stream, with and without the fast arshal_any path; each result must equal the reference tree exactly (float bits, non-nil empty containers, exact member sets) and all routes must agree.",
         "trusted base: /verif/ref parser and math/big (self-tested against the toolchain's encoding/json)",
         "DESIGN.md §4 C03"),
 "C06": ("exploration", "reference push-down model of the token grammar + shadow encoder: accept/reject of every WriteToken/WriteValue call predicted, and real vs shadow encoder state compared after every accepted or rejected call (exhaustive short call sequences + random long ones)",
         "Every call sequence over a 14-symbol alphabet of tokens and raw values up to length 4 (quick) / 5 (thorough), plus random sequences to length 40, runs under 8 option sets against an independent push-down model (accept iff grammar, unique string names after unescaping, balance, depth, UTF-8, raw value validity); a shadow encoder receives only the accepted calls and after every call bytes, OutputOffset, StackDepth, every StackIndex and StackPointer of both must be equal, so a rejected call provably had no observable effect on anything later; at depth 0 the bytes equal the reference formatter.",
         "trusted base: /verif/ref grammar model, parser and whitespace formatter",
         "DESIGN.md §4 C06"),
 "C07": ("fault_enumeration", "differential runtime monitor with injected writer faults: concatenated writes of MarshalWrite/MarshalEncode/token encoding vs Marshal bytes across a size sweep over every flush threshold; enumerated writer fault schedules with prefix/conservation law; flush and retraction hooks prove the critical states were reached",
         "Values are sized so the encoding sweeps every buffer/flush threshold with retractable omitempty members placed around each boundary; the bytes received by a bytes.Buffer and by an opaque writer must equal Marshal(v) (+ newline per Encoder value). Writer faults (accept <= n bytes then error, error at the k-th call) are enumerated for every k and n on short encodings and sampled otherwise: tokens stay accepted, OutputOffset equals the fault-free one, accepted++buffered is always a prefix of the fault-free output and nothing is lost or duplicated after a later successful flush.",
         "trusted base: Marshal output as the fault-free reference (itself checked by C02/C04); hook counters (tag verif) for flushes and retractions after flush",
         "DESIGN.md §4 C07"),
 "C08": ("exploration", "planted-ambiguity runtime monitor: one duplicate (same, re-escaped, case-folded, numerically or textually equal key) or ill-formed UTF-8 sequence is planted at a known position of a clean text fitted to a generated type, ground truth from the effective target; default must reject, permissive option must equal the decoding of the reference-merged clean text",
         "For generated types and fitted clean texts one ambiguity is planted at an object chosen among all objects; Unmarshal, UnmarshalRead and UnmarshalDecode must reject by default, the matching permissive option must accept and give the value of the ref-merged / U+FFFD-substituted clean text, the unrelated option must still reject, clean inputs are unaffected; 40% of targets are pre-populated. Marshal side: colliding fallback/map/text keys and ill-formed Go strings must error by default and never yield duplicate names with nil error.",
         "trusted base: /verif/ref parser, merge and duplicate scan; the harness decides name equivalence from the effective target at the injection point",
         "DESIGN.md §4 C08"),
 "C11": ("exploration", "reference-model runtime monitor: independent minimal quoting/unquoting (RFC 8785, HTML/JS variants) compared byte-exactly with AppendQuote/AppendUnquote over exhaustive short strings and all BMP code points; path sweep scanning every output byte of every string-emitting path under the escape options",
         "All 0/1/2-byte strings and all 3/4-byte strings over a 28-byte critical alphabet, every BMP code point with context, sampled supplementary planes and ill-formed families: AppendQuote must be the minimal form and fail iff ill-formed, unquoting must invert it, one U+FFFD per ill-formed byte. Each string is additionally sent through every listed output path (String token, raw token, WriteValue, Marshal of value / map key / field name / MarshalJSON / MarshalText / Value field / fallback name, Format, AppendFormat, v1.HTMLEscape) x escape options x PreserveRawStrings; every output byte is scanned for forbidden raw characters and every string must keep its meaning and minimal spelling.",
         "trusted base: /verif/ref Quote/Unquote and the Unicode Table 3-7 UTF-8 checker (self-tested against strconv/encoding/json)",
         "DESIGN.md §4 C11"),
 "C12": ("exploration", "reference-model runtime monitor: reformatting outcome judged by the permitted-difference relation on independent parse trees across all 2^11 option subsets; unchanged-on-error and fixed-point checks; second application on read-only memory as a write detector",
         "Generated and mutated texts (duplicates, ill-formed UTF-8, all escape spellings, boundary numbers, depth towers) are reformatted by Format/Compact/Indent/Canonicalize/AppendFormat (incl. dst overlapping src) under option lists walking all 2^11 subsets: success iff reference-valid under the two validity switches, value byte-identical on error, on success equal to the input tree modulo exactly the differences the options permit (whitespace, escape spelling, number canonical form, member order as multiset), layout equal to the reference formatter, and formatting the result again changes nothing (run on read-only memory so that any store faults).",
         "trusted base: /verif/ref parser, ES6 number formatter, UTF-16 ordering and whitespace formatter",
         "DESIGN.md §4 C12"),
 "C13": ("exploration", "reference-model runtime monitor: byte equality with an independent RFC 8785 serializer plus class invariance over re-spellings (member order, whitespace, \\u escapes, exact-rational number forms)",
         "Abstract values are written as 3-4 texts differing only in whitespace, member order, escape spelling and number spelling with the same exact rational; Canonicalize (and Format/AppendFormat with the three canonicalization options) of each must be byte-equal to the independent RFC 8785 serializer, equal across the class, and idempotent. Names are drawn so that UTF-8 and UTF-16 orders differ.",
         "trusted base: /verif/ref Canonicalize (math/big rounding, own ES6 layout, utf16 ordering)",
         "DESIGN.md §4 C13"),
 "C14": ("exploration", "reference-model runtime monitor: JSON-level merge law Unmarshal(j2, Unmarshal(j1, zero)) == Unmarshal(serialize(ref.Merge(j1,j2)), zero) on chains of texts fitted to generated types, plus direct clause checks against deep snapshots",
         "Chains of 2-4 texts fitted to generated types (structs, maps, pointers, slices, arrays, any, recursive/embedded/fallback types) with nulls, missing and unknown members are unmarshaled in sequence through Unmarshal, UnmarshalRead and UnmarshalDecode; every successful step is compared with the direct clauses (null zeroes, slices hold exactly the new elements, arrays zero-filled, untouched entries equal their snapshot) and with unmarshaling the reference-merged text into a fresh zero value.",
         "trusted base: /verif/ref Merge/Serialize (self-tested against a map-level merge over the toolchain's encoding/json)",
         "DESIGN.md §4 C14"),
 "C17": ("exploration", "trace-specification runtime monitor: recorded call trace of instrumented user methods/functions compared with a dispatch model written from the Marshal/Unmarshal documentation over an exhaustive method-receiver matrix x positions x behaviour scripts; 16 different cache histories",
         "81 marshal-side and 27 unmarshal-side declared types (each interface absent / value receiver / pointer receiver) at 22/16 positions (top level, fields of addressable and by-value structs, slice/array elements, map keys/values, behind any and pointers, nil pointers) with caller function lists: the recorded call trace and outcome class must equal the documented precedence, methods are never called on nil pointers, ErrUnsupported falls through only for the To/From forms, any user code not writing/reading exactly one value (incl. popping below its entry depth) yields an error, Options() inside the call reflects the caller's options and Reset panics. Each worker runs the matrix in a different order, so first-use caches see 16 histories.",
         "trusted base: the dispatch model in cmd/c17/model.go, a reading of the package documentation",
         "DESIGN.md §4 C17"),
 "C19": ("exploration", "reference-model runtime monitor: last-wins map model of options vs the full GetOption vector for ALL sequences of <= 3 option atoms (exhaustive) and sampled longer ones in several nestings; irrelevance and per-call scoping observed on long-lived coders",
         "Every public option constructor x argument class is an atom; all sequences of up to 3 atoms and random ones of 4-8, spelled flat / nested / via NewEncoder, NewDecoder and Reset, must give the GetOption vector (35 getters) of the last-wins model; equivalent spellings give identical Marshal/Unmarshal/Format/IsValid/coder results; options documented as ignored by an operation never change its result; options passed to MarshalEncode/UnmarshalDecode leave the coder's own GetOption vector and later behaviour unchanged after success, error and recovered user panic.",
         "trusted base: the option model in cmd/c19/model.go (from the documentation) and /verif/ref formatter",
         "DESIGN.md §4 C19"),
 "C20": ("exploration", "process-level crash/hang monitor + ground-truth depth and cycle oracle: worker processes journal every case, any library panic (other than the closed list of documented misuse panics), fatal error or confirmed hang is a violation; depth towers 9998-10002 and splits through ~50 entry points must accept iff depth <= 10000; cyclic Go values must return an error",
         "Depth towers in 4 container mixes (scalar/empty innermost, siblings, whitespace) through every path that reads, skips, validates, formats, writes tokens or raw values, marshals or unmarshals, including splits between token calls and one value call, must be accepted at 10000 and refused with an error at 10001; deep and cyclic Go values through 17 pointer-like kinds (cycles starting after 0/1/999/1000/1001 levels, pointer/interface-only cycles) must return an error and never exhaust the stack (each in its own child process); hostile byte strings, API-call scripts, misuse sequences and reuse of caller-held coders after failed calls run under a panic and hang monitor.",
         "trusted base: the closed list of documented API-misuse panics (DESIGN.md §4 C20); the watchdog only flags non-termination after a solitary re-run, its first firing is inconclusive",
         "DESIGN.md §4 C20"),
 "C10": ("exploration", "exact-arithmetic runtime monitor: every formatted float is judged by a math/big checker (round trip, shortest, closest, ECMA-262 layout) incl. all 2^32 float32 bit patterns in the thorough tier; every parse into 11 integer and 2 float types through 4 routes plus Token accessors is decided by big.Int/big.Rat at the type bounds",
         "Formatting: float32 bit patterns (all of them in thorough, every 1021st in quick) and stratified float64 values (all exponents x mantissa patterns, +-1000 ulps around every layout switch, powers of ten, 2^53+-k, subnormals, max) through AppendFloat/Marshal/string tag/StringifyNumbers/map keys/any/Token: the text must parse back to the same bits, be the shortest such decimal, the closest among the shortest, and laid out as Number::toString (with -0). Parsing: integer literals within +-2000 of every +-2^k type bound, 19-21 digit strings around 2^63/2^64, random number literals, exact float midpoints +- epsilon, quoted forms and map keys: accepted exactly or refused precisely at the bounds, fractions/exponents/minus-on-unsigned refused; Token.Int/Uint/Float classify syntax vs range with the documented truncation and saturation.",
         "trusted base: math/big (Rat/Int) and the ES6 layout function in /verif/ref (self-tested against strconv)",
         "DESIGN.md §4 C10"),
 "C15": ("exploration", "reference-model runtime monitor: a model of the documented struct-field rules (breadth-first, shallowest wins, tag breaks ties, else dropped; case folding; fallbacks; omitzero/omitempty/string) predicts the emitted member list and, per probe name, the receiving field or error class for reflect-built type graphs; sentinels in every leaf identify fields",
         "Struct type graphs to depth 4 (embedding via the embed option, Go embedding of generated and declared structs by value/pointer/unexported, reuse along several paths, forced name collisions across and within depths, > 64 and > 128 fields, fallbacks) under 5 option sets: the marshaled member names, order and sentinels must equal the model's list; every probe name (exact, case and delimiter variants, unknown) must be stored into the model's field or fail with the model's error class (ambiguous, unknown); omitzero/omitempty/string must take effect on exactly the flagged fields when their documented condition holds. The one disagreement with the documented rules found on this tree (diamond embedding, F6) is a recorded known finding matched by its exact shape.",
         "trusted base: ref.ModelStruct, a reading of the package documentation, not a transcription of fields.go",
         "DESIGN.md §4 C15"),
 "C04": ("exploration", "round-trip runtime monitor: Marshal -> Unmarshal -> Marshal on generated typed values (byte fixed point, second-round fixed point under omit options, Go equality modulo the documented non-injective encodings) plus an independent 'representation' oracle (math/big, time.Format, RFC 4648 of the toolchain) on every alternative representation; all 2^32 float32 bit patterns in the thorough tier",
         "Reflect-built types (nesting <= 6, up to 140 fields, escaped names, every tag option where documented) x boundary-dense values x 26 symmetric option sets: Unmarshal must accept Marshal(v), re-marshaling must reproduce the bytes (one more round under omitzero/omitempty), and where equality is meaningful the decoded value must equal v (floats by bits, full 64-bit integers, times by instant+offset or by what the layout carries; a pointer equals nil iff both encode as null). Dedicated sweeps per alternative representation (quoted numbers, numeric map keys, 7 byte formats, 18+ time layouts incl. unix*, 6 duration formats) additionally check that the first output denotes the value exactly, so formatter and parser errors that cancel cannot hide. float32: every bit pattern (thorough), every 509th (quick).",
         "trusted base: math/big, the toolchain's time.Format/Parse and encoding/base32,64,hex for the representation oracle; equality relation = kernel of the documented encoding (nil/empty containers, pointers whose target encodes as null)",
         "DESIGN.md §4 C04"),
 "C09": ("exploration", "differential runtime monitor: v1 and the toolchain's classic encoding/json executed side by side in the same process on generated byte strings, reflect-built types/values and Decoder method scripts; every disagreement is attributed to a root cause computed from structural facts of the case (type features, tags, input class, failing side), matched against recorded known findings",
         "Byte strings (generated, seeded, mutated) through Valid/Compact/Indent/HTMLEscape/Unmarshal; Go types over a 70-leaf pool (basic and named kinds, Number, RawMessage, time, JSON/text methods on value and pointer receivers, embedding shapes, fold conflicts) x tags (name, omitempty, omitzero, string, -) x maps keyed by string/integer/text types: Marshal/MarshalIndent/Encoder outputs must be byte-identical, Unmarshal/Decoder (UseNumber, DisallowUnknownFields, zero and pre-populated targets) must fail together and give deeply equal values, syntactically invalid input must leave the v1 target untouched; Decoder scripts over Token/Decode/More/InputOffset with chunked readers. Divergences of this tree that are not repaired are known findings F8, F21, F22, F24, F25, each matched by its own cause; anything else is a violation.",
         "oracle: the encoding/json of the toolchain the repository is tested with (go1.26.0), same process, same Go values; domain restricted to types both packages can handle in the exercised direction; not compared: error text, targets after semantic errors, sentinel identity on damaged streams",
         "DESIGN.md §4 C09"),
 "C18": ("exploration", "Go race detector (go build -race, log files scanned) + golden-result monitor: every call of a ~920-entry catalogue is compared with its result from fresh processes in seeded sequential and 16-goroutine concurrent histories; returned slices, decoded strings and error values are re-hashed after later calls and after the caller scribbled over its input; pool hooks poison recycled buffers and assert fresh state",
         "A catalogue of deterministic call closures over every public entry point (Marshal/MarshalWrite/MarshalEncode, Unmarshal/UnmarshalRead/UnmarshalDecode, Format family, token-level coders, v1) x option sets x failing and panicking user code x 64 KiB / 1 MiB / depth-1500 / depth-10001 data, first use of fresh types, shared Marshalers and shared option arrays passed as sub-slices. Golden results come from fresh processes (quick: 2 x 24 processes running the calls in opposite orders, cross-checked; thorough: one process per call). 8 worker shards run under the race detector, 8 in the plain build (about 16x cheaper here); half of the workers have the process-wide format-tag switch on. Every op in every history must equal its golden result (map output without Deterministic modulo member order), everything handed back must hash the same at the end of the history, any DATA RACE report is a violation, and a planted race must be reported at the start of each run (otherwise inconclusive).",
         "trusted base: the Go race detector; golden results from the same build in fresh processes; on a failing writer only the error is part of the result (C07 promises just a prefix)",
         "DESIGN.md §4 C18, §7.1"),
}

NOT_YET = {
}

def main():
    props = [json.loads(l) for l in open('properties.jsonl')]
    hooks_commits = []
    if os.path.exists('hooks_commits.txt'):
        hooks_commits = [l.strip() for l in open('hooks_commits.txt') if l.strip()]
    m = {
        "version": 1,
        "setup_cmd": "./setup.sh",
        "hooks": {
            "guard": "verif",
            "enable": "go build -tags verif (done by ./check for every per-property binary; falls back to an untagged build if the hooks stop compiling)",
            "baseline_off_cmd": "cd /repo && . /verif/env.sh && go test -mod=mod -json -vet=off -count=1 -timeout 25m ./...",
            "source_commits": hooks_commits,
            "add_only": True,
        },
        "engines": [
            {"name": "vcheck", "path": "/verif/run", "serves_properties": sorted(CHECKS), "kind_free_text": "parent/worker runtime-monitoring harness: per-case journal, panic/fatal/hang monitors, known-finding matching, evidence writer"},
            {"name": "ref", "path": "/verif/ref", "serves_properties": sorted(CHECKS), "kind_free_text": "independent reference implementations used as oracles (parser, tokenizer, prefix analyzer, quoting, numbers via math/big, canonicalizer, formatter, merge)"},
        ],
        "checks": [],
        "notes": "Technique family: runtime monitoring and sanitizers. See DESIGN.md. Exit 2 + INCONCLUSIVE on stderr = broken run (non-vacuity floor or harness malfunction), never a finding.",
        "not_applicable": [],
    }
    for p in props:
        pid = p["id"]
        if pid in CHECKS:
            level, tech, text, note, ref = CHECKS[pid]
            m["checks"].append({
                "property_id": pid,
                "quick_cmd": f"./check {pid} quick",
                "thorough_cmd": f"./check {pid} thorough",
                "evidence_file": f"/verif/evidence/{pid}.json",
                "replay_cmd_template": f"./check {pid} --replay {{path}}",
                "engine": "vcheck",
                "level_claimed": {"category": level, "text": text, "design_ref": ref},
                "level_note": note,
                "technique": tech,
            })
        else:
            m["not_applicable"].append({"property_id": pid, "reason": NOT_YET.get(pid, "monitor designed (DESIGN.md §4) but not built yet in this tree; not claimed until its check exists and is silent on the unchanged tree")})
    json.dump(m, open('MANIFEST.json', 'w'), indent=1)
    print("MANIFEST.json:", len(m["checks"]), "checks,", len(m["not_applicable"]), "not claimed")

main()

#!/usr/bin/env python3
"""Regenerates MANIFEST.json from the table below (edit here, run, commit)."""
import json, os, subprocess

CHECKS = {
 # id: (level, technique, level_text, level_note, design_ref)
 "C01": ("exploration", "reference-model runtime monitor (independent RFC 8259/7493 recognizer) over exhaustive short strings + generated/mutated/targeted texts, 4 option configs x 4 entry points",
         "Every explored text is decided by an independent recognizer and compared with IsValid, the value-wise and token-wise Decoder and Unmarshal under all four option combinations; all strings over a 33-byte critical alphabet and a 30-fragment lexical alphabet up to length 4 (quick) / 5 (thorough) are enumerated exhaustively, the rest is seeded exploration. Held on what was executed, not a proof.",
         "trusted base: /verif/ref recognizer and tokenizer (self-tested each run against the toolchain's encoding/json.Valid); depth limit and float64-overflow clause taken from the docs",
         "DESIGN.md §4 C01"),
 "C05": ("fault_enumeration", "differential runtime monitor: same call script over the whole input vs over chunked/faulty readers (explicit cut and transient-fault schedules, enumerated exhaustively for short inputs), event logs compared; conservation law after every call; hook shadow-check of the decode buffer",
         "Every case runs a ReadToken/ReadValue/SkipValue/PeekKind script twice - whole input at once and through a reader with an explicit schedule of cuts, empty reads, data+EOF and transient faults - and compares the complete event logs (token text, offsets, depth, every stack index, stack pointer, error class+offset+pointer); after every call input[:InputOffset]++UnreadBuffer must equal the bytes handed out; transient faults must leave all observable state unchanged and the retried identical call must continue. All single cuts, all cut pairs and all fault positions of the short corpus are enumerated; larger inputs get seeded random schedules. UnmarshalRead and UnmarshalDecode are compared with Unmarshal.",
         "reference run = same API over a bytes.Buffer (its events are checked against /verif/ref by C16); SkipValue is not required to be retry-atomic; hooks (tag verif) add a shadow check that the decode buffer equals the stream after every compaction/growth",
         "DESIGN.md §4 C05"),
 "C16": ("exploration", "reference-model runtime monitor: independent tokenizer/prefix analyzer predicts offsets, stack depth/index/pointer after every coder call and the admissible location of every syntactic error; planted conversion failures give exact ground truth for semantic errors",
         "After every Decoder and Encoder call in generated scripts the offsets, StackDepth, every StackIndex and StackPointer are compared with an independent tokenizer; Pointer methods are checked against RFC 6901 on generated token lists; every rejected text is sent through the token, value, skip, Unmarshal and UnmarshalRead paths (several chunk sizes) and ByteOffset/JSONPointer must lie in the set the property allows, exactly for duplicate names; conversion failures planted at known paths in generated types must be reported with exactly that pointer and offset.",
         "trusted base: /verif/ref tokenizer and prefix analyzer; OutputOffset is taken to include the newline after a completed top-level value",
         "DESIGN.md §4 C16"),
}

NOT_YET = {}

def main():
    props = [json.loads(l) for l in open('properties.jsonl')]
    hooks_commits = []
    if os.path.exists('hooks_commits.txt'):
        hooks_commits = [l.strip() for l in open('hooks_commits.txt') if l.strip()]
    m = {
        "version": 1,
        "setup_cmd": "./setup.sh",
        "hooks": {
            "guard": "verif",
            "enable": "go build -tags verif (done by ./check for every per-property binary; falls back to an untagged build if the hooks stop compiling)",
            "baseline_off_cmd": "cd /repo && . /verif/env.sh && go test -mod=mod -json -vet=off -count=1 -timeout 25m ./...",
            "source_commits": hooks_commits,
            "add_only": True,
        },
        "engines": [
            {"name": "vcheck", "path": "/verif/run", "serves_properties": sorted(CHECKS), "kind_free_text": "parent/worker runtime-monitoring harness: per-case journal, panic/fatal/hang monitors, known-finding matching, evidence writer"},
            {"name": "ref", "path": "/verif/ref", "serves_properties": sorted(CHECKS), "kind_free_text": "independent reference implementations used as oracles (parser, tokenizer, prefix analyzer, quoting, numbers via math/big, canonicalizer, formatter, merge)"},
        ],
        "checks": [],
        "notes": "Technique family: runtime monitoring and sanitizers. See DESIGN.md. Exit 2 + INCONCLUSIVE on stderr = broken run (non-vacuity floor or harness malfunction), never a finding.",
        "not_applicable": [],
    }
    for p in props:
        pid = p["id"]
        if pid in CHECKS:
            level, tech, text, note, ref = CHECKS[pid]
            m["checks"].append({
                "property_id": pid,
                "quick_cmd": f"./check {pid} quick",
                "thorough_cmd": f"./check {pid} thorough",
                "evidence_file": f"/verif/evidence/{pid}.json",
                "replay_cmd_template": f"./check {pid} --replay {{path}}",
                "engine": "vcheck",
                "level_claimed": {"category": level, "text": text, "design_ref": ref},
                "level_note": note,
                "technique": tech,
            })
        else:
            m["not_applicable"].append({"property_id": pid, "reason": NOT_YET.get(pid, "monitor designed (DESIGN.md §4) but not built yet in this tree; not claimed until its check exists and is silent on the unchanged tree")})
    json.dump(m, open('MANIFEST.json', 'w'), indent=1)
    print("MANIFEST.json:", len(m["checks"]), "checks,", len(m["not_applicable"]), "not claimed")

main()

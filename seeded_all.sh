#!/bin/bash
# usage: ./seeded_all.sh [pattern]   evaluates every seeded change (3 at a time); results appended to seeded/RESULTS.txt
cd "$(dirname "$0")"
pat="${1:-.}"
ls -d seeded/C* | grep -E "$pat" | xargs -P "${PAR:-3}" -I{} sh -c 'CONFIRM=${CONFIRM:-1} ./seeded_eval.sh {} 2>&1 | grep "^SEEDED"' | tee -a seeded/RESULTS.txt
